#!/venv/bin/python
"""tools/rebase_seeds.py <base-commit> -- re-base every stored seed patch which applies to <base-commit> of /repo but no longer
(cleanly) to the working tree of /repo, by a three-way merge (git merge-file) of  ours = /repo now, base = /repo at <base-commit>,
theirs = <base-commit> with the seed applied.  Conflicts are reported and left for a re-write by hand (tools/mkpatch.sh)."""
import json, os, shutil, subprocess, sys, tempfile

base_commit = sys.argv[1]
only = sys.argv[2:]  # optional seed names
tmp = tempfile.mkdtemp(prefix="rebase_seeds_")
base = os.path.join(tmp, "base")
os.makedirs(base)
subprocess.run("git -C /repo archive {} icontract | tar -x -C {}".format(base_commit, base), shell=True, check=True)
head = subprocess.run(["git", "-C", "/repo", "rev-parse", "--short", "HEAD"], capture_output=True, text=True).stdout.strip()
done, conflicts, untouched, nobase = [], [], [], []
for name in sorted(os.listdir("/verif/seeded")):
    d = os.path.join("/verif/seeded", name)
    patch = os.path.join(d, "patch.diff")
    if name.startswith("_") or not os.path.isfile(patch) or (only and name not in only):
        continue
    ours = os.path.join(tmp, "ours")
    shutil.rmtree(ours, ignore_errors=True)
    shutil.copytree("/repo/icontract", os.path.join(ours, "icontract"), ignore=shutil.ignore_patterns("__pycache__"))
    r = subprocess.run("patch -p1 -f --dry-run < {}".format(patch), shell=True, cwd=ours, capture_output=True, text=True)
    if "FAILED" not in r.stdout and "offset" not in r.stdout and "fuzz" not in r.stdout and r.returncode == 0:
        untouched.append(name)
        continue
    theirs = os.path.join(tmp, "theirs")
    shutil.rmtree(theirs, ignore_errors=True)
    shutil.copytree(base, theirs)
    r = subprocess.run("patch -p1 -f -s --no-backup-if-mismatch < {}".format(patch), shell=True, cwd=theirs, capture_output=True, text=True)
    if r.returncode != 0 or "FAILED" in r.stdout:
        nobase.append(name)
        continue
    ok = True
    for root, _, files in os.walk(os.path.join(theirs, "icontract")):
        for f in files:
            if not f.endswith(".py"):
                continue
            rel = os.path.relpath(os.path.join(root, f), theirs)
            a, b, c = os.path.join(ours, rel), os.path.join(base, rel), os.path.join(theirs, rel)
            if open(b).read() == open(c).read():
                continue
            m = subprocess.run(["git", "merge-file", "-p", a, b, c], capture_output=True, text=True)
            if m.returncode != 0:
                ok = False
                break
            open(a, "w").write(m.stdout)
        if not ok:
            break
    if not ok:
        conflicts.append(name)
        continue
    orig = os.path.join(tmp, "orig")
    shutil.rmtree(orig, ignore_errors=True)
    os.makedirs(os.path.join(orig, "a"))
    shutil.copytree("/repo/icontract", os.path.join(orig, "a", "icontract"), ignore=shutil.ignore_patterns("__pycache__"))
    shutil.move(ours, os.path.join(orig, "b"))
    diff = subprocess.run("diff -ru a/icontract b/icontract | grep -v '^diff -ru' | grep -v '^Only in'", shell=True, cwd=orig, capture_output=True, text=True).stdout
    if not diff.strip():
        conflicts.append(name + " (empty)")
        continue
    open(patch, "w").write(diff)
    mp = os.path.join(d, "meta.json")
    meta = json.load(open(mp))
    if isinstance(meta.get("rebased"), str):
        meta["rebased"] = [meta["rebased"]]
    meta.setdefault("rebased", []).append("{}: re-based by three-way merge (tools/rebase_seeds.py, base {})".format(head, base_commit))
    json.dump(meta, open(mp, "w"), indent=1)
    done.append(name)
shutil.rmtree(tmp, ignore_errors=True)
print("rebased:", len(done), done)
print("conflicts (by hand):", conflicts)
print("did not apply to the base either:", nobase)
print("untouched:", len(untouched))
