#!/bin/bash
# tools/seedmatrix.sh [tier] : for every stored seed: does the patch apply to the current /repo, does the demo flip, which checks catch it.
# Writes seeded/MATRIX.md
tier=${1:-quick}
# SHARD_I / SHARD_N: run only every N-th seed (rows go to /tmp/matrix_part_<i>.md; merge with tools/seedmatrix_merge.sh)
out=/verif/seeded/MATRIX.md
if [ -n "${SHARD_N:-}" ]; then out=/tmp/matrix_part_${SHARD_I}.md; fi
echo "# Seeded changes x checks (tier=$tier, repo HEAD $(git -C /repo rev-parse --short HEAD), $(date -u +%F))" > $out
echo >> $out
echo "| seed | breaks | applies | demo clean/patched | caught by (exit 1 + VIOLATION) | silent |" >> $out
echo "|---|---|---|---|---|---|" >> $out
k=0
for d in /verif/seeded/[A-Z]*/; do
  name=$(basename $d)
  # ONLY_FILE: a file with seed names; all other seeds are skipped (partial re-run after a change; merge with tools/seedmatrix_update.py)
  if [ -n "${ONLY_FILE:-}" ] && ! grep -qx "$name" "$ONLY_FILE"; then continue; fi
  k=$((k+1))
  if [ -n "${SHARD_N:-}" ] && [ $((k % SHARD_N)) != "${SHARD_I}" ]; then continue; fi
  prop=$(/venv/bin/python -c "import json;print(json.load(open('$d/meta.json'))['breaks_property'])")
  checks=$(/venv/bin/python -c "import json;m=json.load(open('$d/meta.json'));print(' '.join(m.get('run_checks',[m['breaks_property']])))")
  w=$(mktemp -d /tmp/mut_XXXXXX)
  rsync -a --exclude .git --exclude '__pycache__' /repo/ "$w/"
  ( cd "$w" && PYTHONDONTWRITEBYTECODE=1 timeout 300 /venv/bin/python "$d/demo.py" >/dev/null 2>&1 ); c0=$?
  if ( cd "$w" && patch -p1 -s --no-backup-if-mismatch < "$d/patch.diff" >/dev/null 2>&1 ) && ( cd "$w" && /venv/bin/python -c "import sys; sys.path.insert(0,'.'); import icontract" >/dev/null 2>&1 ); then
    applies=yes
    ( cd "$w" && PYTHONDONTWRITEBYTECODE=1 timeout 300 /venv/bin/python "$d/demo.py" >/dev/null 2>&1 ); c1=$?
    caught=""; silent=""
    for id in $checks; do
      o=$(cd /verif && VERIF_REPO="$w" VERIF_NOEVIDENCE=1 ./check "$id" --tier "$tier" 2>&1); rc=$?
      if [ $rc = 1 ] && echo "$o" | grep -q '^VIOLATION'; then caught="$caught $id"; else silent="$silent $id(rc=$rc)"; fi
    done
  else
    applies=NO; c1=-; caught=-; silent=-
  fi
  echo "| $name | $prop | $applies | $c0/$c1 | $caught | $silent |" >> $out
  rm -rf "$w"
done
if [ -z "${SHARD_N:-}" ]; then cat $out; fi
