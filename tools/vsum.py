#!/venv/bin/python
"""Summarise a VERIF_DUMP file: tools/vsum.py file key1,key2,..."""
import json, sys, collections
keys = sys.argv[2].split(",") if len(sys.argv) > 2 else []
c = collections.Counter(); ex = {}
for l in open(sys.argv[1]):
    d = json.loads(l)
    k = (d["symptom"],) + tuple(str(d["features"].get(x)) for x in keys)
    c[k] += 1; ex.setdefault(k, d["detail"][:int(sys.argv[3]) if len(sys.argv) > 3 else 260])
for k, v in sorted(c.items()):
    print(v, k, "\n     ", ex[k].replace("\n", " | "))
