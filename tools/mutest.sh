#!/bin/bash
# tools/mutest.sh <patch.diff> <tier> <ID>...   : apply a patch to a scratch copy of /repo, run the repo's own
# tests there (must still pass), optionally run DEMO=<demo.py> before/after, then run the given checks against
# the copy; the copy is removed afterwards.
set -u
patch=$(realpath "$1"); tier=$2; shift 2
d=$(mktemp -d /tmp/mut_XXXXXX)
trap 'rm -rf "$d"' EXIT
rsync -a --exclude .git --exclude '__pycache__' /repo/ "$d/"
if [ -n "${DEMO:-}" ]; then
  ( cd "$d" && PYTHONDONTWRITEBYTECODE=1 timeout 300 /venv/bin/python "$DEMO" >/dev/null 2>&1 ); echo "demo on clean tree: rc=$? (want 0)"
fi
( cd "$d" && patch -p1 -s < "$patch" ) || { echo "PATCH FAILED"; exit 3; }
if [ -n "${DEMO:-}" ]; then
  ( cd "$d" && PYTHONDONTWRITEBYTECODE=1 timeout 300 /venv/bin/python "$DEMO" >/dev/null 2>&1 ); echo "demo on patched tree: rc=$? (want non-zero)"
fi
if [ "${SKIP_BASELINE:-0}" != 1 ]; then
  /verif/tools/run_baseline.py "$d" || echo "MUTANT BREAKS BASELINE"
fi
for id in "$@"; do
  out=$(cd /verif && VERIF_REPO="$d" VERIF_NOEVIDENCE=1 ./check "$id" --tier "$tier" 2>&1)
  rc=$?
  echo "== $id rc=$rc: $(echo "$out" | grep -c '^VIOLATION') violation line(s); $(echo "$out" | grep '^VIOLATION' -A1 | sed -n 2p | cut -c1-220)"
done
