#!/bin/bash
# tools/mkpatch.sh <seed-name> <note> -- write seeded/<name>/patch.diff as the difference between /repo (HEAD tree) and the
# scratch copy /tmp/rb/b (edited by hand), and note the re-basing in meta.json.
set -e
name=$1; note=$2
rm -rf /tmp/rb/a; mkdir -p /tmp/rb/a; rsync -a --exclude .git --exclude '*.rej' --exclude '*.orig' /repo/icontract /tmp/rb/a/
(cd /tmp/rb && diff -ru a/icontract b/icontract | grep -v '^diff -ru' | grep -v '^Only in' > /verif/seeded/$name/patch.diff) || true
/venv/bin/python - "$name" "$note" <<'PY'
import json, sys, subprocess
name, note = sys.argv[1:3]
p = "/verif/seeded/{}/meta.json".format(name)
m = json.load(open(p))
head = subprocess.run(["git", "-C", "/repo", "rev-parse", "--short", "HEAD"], capture_output=True, text=True).stdout.strip()
if isinstance(m.get("rebased"), str):
    m["rebased"] = [m["rebased"]]
m.setdefault("rebased", []).append("{}: {}".format(head, note))
json.dump(m, open(p, "w"), indent=1)
PY
wc -l /verif/seeded/$name/patch.diff
