#!/venv/bin/python
"""tools/seedmatrix_update.py <n> : replace / add the rows of seeded/MATRIX.md by those of /tmp/matrix_part_0..n-1.md (partial re-run
with ONLY_FILE=<names> SHARD_I=i SHARD_N=n tools/seedmatrix.sh) and note the re-run in the header."""
import re, subprocess, sys
n = int(sys.argv[1])
path = "/verif/seeded/MATRIX.md"
lines = open(path).read().split("\n")
rows = {}
for i in range(n):
    for ln in open("/tmp/matrix_part_{}.md".format(i)).read().split("\n")[4:]:
        if ln.startswith("| C"):
            rows[ln.split("|")[1].strip()] = ln
head = subprocess.run(["git", "-C", "/repo", "rev-parse", "--short", "HEAD"], capture_output=True, text=True).stdout.strip()
out, seen = [], set()
for ln in lines:
    if ln.startswith("| C"):
        name = ln.split("|")[1].strip()
        if name in rows:
            out.append(rows[name]); seen.add(name); continue
    out.append(ln)
extra = sorted(r for nme, r in rows.items() if nme not in seen)
body = [l for l in out if l.startswith("| C")] + extra
pre = [l for l in out if not l.startswith("| C")]
hdr_end = max(i for i, l in enumerate(pre) if l.startswith("|---")) + 1
res = pre[:hdr_end] + sorted(body) + pre[hdr_end:]
res.append("({} rows re-run against repo HEAD {} after later fixes / check extensions: {})".format(len(rows), head, ", ".join(sorted(rows))))
open(path, "w").write("\n".join(res) + "\n")
print("updated", len(rows), "rows; total", len(body))
bad = [r for r in rows.values() if "| 0/1 |" not in r or r.split("|")[5].strip() == ""]
print("anomalies:", bad)
