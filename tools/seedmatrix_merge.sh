#!/bin/bash
# tools/seedmatrix_merge.sh <n> : merge /tmp/matrix_part_0..n-1.md (written by SHARD_I=i SHARD_N=n tools/seedmatrix.sh) into seeded/MATRIX.md
n=$1
out=/verif/seeded/MATRIX.md
head -4 /tmp/matrix_part_0.md > $out
for i in $(seq 0 $((n-1))); do tail -n +5 /tmp/matrix_part_$i.md; done | sort >> $out
echo "rows: $(tail -n +5 $out | wc -l)"; grep -c "| NO |" $out; grep -v "^| seed\|^|---\|^#\|^$" $out | awk -F'|' '$6 ~ /^ *$/ {print "NOT CAUGHT:", $2}'
