#!/venv/bin/python
"""Run the repository's pinned test suite (guard OFF) and compare with /root/.vp/BASELINE.json.

usage: run_baseline.py [repo_dir]   exit 0 iff every stable_pass test passes."""
import json
import os
import subprocess
import sys
import tempfile
import xml.etree.ElementTree as ET

repo = sys.argv[1] if len(sys.argv) > 1 else "/repo"
base = json.load(open("/root/.vp/BASELINE.json"))
want = set(base["stable_pass"])
fd, xml = tempfile.mkstemp(suffix=".xml")
os.close(fd)
env = dict(os.environ)
for k in ("ICONTRACT_VERIF", "VERIF_REPO", "ICONTRACT_SLOW"):
    env.pop(k, None)
env["PYTHONDONTWRITEBYTECODE"] = "1"
subprocess.run(["/venv/bin/python", "-m", "pytest", "-q", "-p", "no:cacheprovider", "--timeout=900",
                "--continue-on-collection-errors", "--junitxml=" + xml], cwd=repo, env=env,
               stdout=subprocess.DEVNULL, stderr=subprocess.DEVNULL)
passed = set()
for tc in ET.parse(xml).getroot().iter("testcase"):
    if not any(ch.tag in ("failure", "error", "skipped") for ch in tc):
        passed.add("{}::{}".format(tc.get("classname"), tc.get("name")))
os.unlink(xml)
norm = lambda s: s.replace("::", ".", 0)
missing = sorted(t for t in want if t not in passed and t.replace("::", ".") not in {p.replace("::", ".") for p in passed})
print("baseline: {} of {} stable tests pass".format(len(want) - len(missing), len(want)))
for m in missing[:20]:
    print("  NOT PASSING:", m)
sys.exit(1 if missing else 0)
