#!/usr/bin/env python3-vt
"""Regenerate /verif/MANIFEST.json from the table below (kept in one place so that it stays valid)."""
import json
import os

HERE = os.path.dirname(os.path.dirname(os.path.abspath(__file__)))

CHECKS = {
    "C01": dict(
        text="Bounded exhaustive exploration of the real implementation: every program of family F (10 callable kinds x "
             "sync/async x plain/DBC x 0-2 inherited precondition groups x own stack of 0-3 preconditions x "
             "+-postcondition/snapshot/invariant x def/lambda conditions x 4 error forms) x every truth assignment x every "
             "call shape is executed and compared with the DNF computed from the declaration: body entered iff DNF, no "
             "capture and the error of a falsy condition otherwise.",
        note="Trusted: CPython, the harness' renderer and DNF reference (boring, ~60 lines). Bounds: stacks <= 3, "
             "inherited groups <= 2, one chain of classes (DAGs are C04's).",
        technique="explicit exhaustive enumeration of programs x truth assignments x call shapes on the real code, DNF reference oracle",
        design="3/C01"),
    "C02": dict(
        text="Exhaustive exploration of family F with 0-3 own and 0-4 inherited postconditions x all truth assignments x 8 "
             "body outcomes (return of fresh/None/0/[]/mutated-argument objects; raise of Exception, BaseException subclass, "
             "KeyboardInterrupt) x body mutation modes: the post/body projection of the real event log and the outcome at the "
             "caller (identity of returned / raised object) must equal the reference interpreter's.",
        note="Trusted: CPython, renderer, reference. Single-inheritance chains only (DAGs: C04). StopIteration bodies excluded.",
        technique="explicit exhaustive enumeration on the real code, reference-interpreter oracle on event logs and object identity",
        design="3/C02"),
    "C03": dict(
        text="History exploration on the real classes: class shapes (plain, __slots__, dataclass, NamedTuple, no __init__, user "
             "__new__, user __getattribute__; object or DBC; DBC children adding invariants / overriding / adding members, "
             "constructors calling super().__init__() first/middle/last/never/absent) x 1-2 invariants with all check_on "
             "combinations in both decorator orders x construct followed by every sequence of <=2 operations from a 15-17 entry "
             "member table x 'the k-th invariant evaluation is falsy' for every k in the last and the first operation. A monitor "
             "derived from the statement judges each step (which invariants, how often, before/after the body, none around "
             "exempt members, none while a constructor is on the stack, recovery after a violation).",
        note="Trusted: CPython, renderer, monitor. Slot wrappers inherited from object/tuple are not triggered (statement silent). "
             "Two recorded defects (KF-C03-2, KF-C03-3) are matched by narrow predicates.",
        technique="exhaustive operation-history enumeration with single-fault truth sequences on the real classes, statement-derived monitor",
        design="3/C03"),
    "C04": dict(
        text="Exhaustive exploration of class hierarchies on DBC (single, chains of 2-3, two bases in both orders, diamond, "
             "Y shape; <=4 classes) x member kind (method, static, class method, property get/set/del) x every per-class "
             "placement (absent / bare / +pre / +2 pre / +post / +pre+post) x invariant placement, plus members named "
             "__call__/register/mro/__eq__ and constructor contract placements. On an instance of every class and for all "
             "truth assignments the accept/reject verdict, evaluated postcondition set, invariant set and class-creation "
             "errors are compared with a structural-recursion reference (DNF/CNF of the declaration; Python's own MRO from a "
             "bare twin hierarchy).",
        note="Trusted: CPython (MRO of the bare twin), renderer, reference. Where the statement is silent (class adds "
             "preconditions while only some bases are unconstrained) both rejection and precondition TRUE are accepted.",
        technique="explicit exhaustive enumeration of hierarchies x placements x truth assignments on the real code, structural-recursion reference",
        design="3/C04"),
    "C05": dict(
        text="Exhaustive enumeration of signature shapes (<=2 positional-only, <=2 positional-or-keyword, *args, <=2 keyword-only, "
             "**kwargs, every legal default placement, +-self) x every call shape that inspect.Signature.bind accepts within the "
             "bounds; every condition, capture, postcondition and error factory must receive, for each named parameter, the very "
             "object CPython binds (and the body receives), _ARGS/_KWARGS the call's own positionals/keywords; a condition asking "
             "for a name the call does not provide must yield a TypeError naming it.",
        note="Trusted: CPython's inspect.Signature.bind as the oracle, the instrumented body as cross-check. Variadic parameter names not judged.",
        technique="explicit exhaustive enumeration of signatures x accepted call shapes on the real code, CPython binding as oracle",
        design="3/C05"),
    "C06": dict(
        text="Exhaustive enumeration of a typed expression grammar covering the forms the statement lists (constants; names from "
             "arguments/closure/globals/builtins incl. an argument shadowing a builtin, arguments bound to None and names that "
             "exist both as argument and as global; attributes, method calls; subscripts, slices; calls with positional, keyword, "
             "* and ** arguments; unary/binary/boolean/comparison operators incl. chains; conditional and assignment expressions; "
             "f-strings; displays; comprehensions and generator expressions; all()/any(), nested): depth<=1 complete, all "
             "parent/child pairs (thorough: full products of binary productions and depth-3 chains), each in 6 falsifying frames "
             "on 4 valuations and three roles. For every falsy (condition, valuation) the real message is parsed and compared "
             "with an independent recording of CPython's evaluation of the same text (every sub-expression wrapped in a recorder "
             "call): each line names an evaluated sub-expression or a call argument and shows a_repr.repr of a value it took; the "
             "all()-example is the first falsifying assignment; completeness of arguments and of evaluated "
             "names/attributes/calls/subscripts/comprehensions.",
        note="Trusted: CPython as the oracle, the recorder (AST rewriting that preserves evaluation order and short-circuiting), the "
             "message parser. One recorded omission (KF-C06-2: values inside f-strings).",
        technique="exhaustive grammar enumeration on the real code with CPython itself as the reference (instrumented re-evaluation)",
        design="3/C06"),
    "C07": dict(
        text="(a) the whole C06 condition set with rotating error forms: exact exception class at the caller, location line pointing "
             "at the decorator, condition text whose AST equals the generated expression; (b) 25 guard conditions whose later "
             "operands are only defined when earlier ones hold (and/or chains, comparison chains, conditional expressions, "
             "generator filters, guards nested in calls/displays/f-strings/walrus) x 8 valuations, instrumented with probes: the "
             "probes hit during message building must be a subset of those Python hit, and the violation must not be replaced by "
             "another exception; (c) layout product: 17 decorator layouts (one line, lambda on next line, many lines, keyword "
             "forms in every order, comments incl. column 0, blank line) x 5 decorator spellings (alias, module alias, "
             "require/ensure/invariant) x 6 neighbour configurations x 4 scopes x def/async def/class x 3 conditions.",
        note="Trusted: CPython, the probe instrumentation, ast.dump for text equality.",
        technique="exhaustive enumeration of conditions x falsifying inputs and of decorator layouts on the real code; probe-subset oracle for short-circuiting",
        design="3/C07"),
    "C08": dict(
        text="Exhaustive exploration of family F with 0-2 own/inherited snapshots (captures copy or alias; OLD read by conditions "
             "or only by error factories) x precondition truth assignments x each postcondition falsy x mutating / rebinding / "
             "raising bodies, compared event-by-event with the reference (capture once, after the last precondition, before the "
             "body, never after a failed precondition, never without postconditions; OLD identity and contents), plus a "
             "hand-enumerated definition-time family (duplicates, diamond, unnamed captures, snapshot not preceded by a "
             "postcondition, unknown OLD names) x callable kinds.",
        note="Trusted: CPython, renderer, reference. Bounds: <=2 snapshots per level, <=3 levels.",
        technique="explicit exhaustive enumeration on the real code, reference-interpreter oracle; definition-time case table",
        design="3/C08"),
    "C09": dict(
        text="Exhaustive product: role (pre/post/invariant) x callable kind (incl. async, property setter, constructor) x error "
             "form (none, Exception/BaseException class, instance, def/lambda factory, bound method, static/class method through "
             "the class) x every subset of nameable values a factory may ask for (+ unknown name, non-exception return); each "
             "case is a history violate/satisfy/violate/violate in one context; type, identity, args and factory calls are "
             "compared with the statement. Invalid error kinds x the three decorators must raise ValueError at creation.",
        note="Trusted: CPython, the harness. The generated message text is only checked for its frame here (C06/C07/C20 judge it).",
        technique="explicit exhaustive enumeration of role x kind x error form x factory-parameter subsets, executed as 4-step histories on the real code",
        design="3/C09"),
    "C10": dict(
        text="Exhaustive enumeration of call-graph programs (functions f, g with pre/post(/capture), DBC class K with an invariant, "
             "method m with pre/post, constructor, two long-lived instances): each of 12 slots holds a script of 0-2 actions from "
             "{f(), g(), self.m(), other.m(), K()}; all programs with <=2 (quick) / <=3 (thorough) non-empty slots x 4 top-level "
             "actions x (all true | each evaluated condition falsy). A monitor over the real well-nested event tree requires "
             "termination and that every call with no evaluation of its own contracts (resp. no operation on the same object) "
             "among its ancestors is fully checked; re-entrant calls may be checked or bare.",
        note="Trusted: CPython, the monitor. Body scripts run at most twice per run; programs whose invariant constructs a new "
             "instance of its own class are excluded (infinite under any semantics). Runaway detector: 600 frames / 6000 events.",
        technique="exhaustive enumeration of bounded call-graph programs executed on the real code, tree monitor (shortest program first)",
        design="3/C10"),
    "C11": dict(
        text="Fault enumeration on the real code: for each call (sync function, async function, constructor, sync method, async "
             "method of a class with two invariants) and each choice of falsy condition (none / each one), the boundary crossings "
             "of the fault-free run are recorded (every entry into a condition, truth test, capture, error factory, __repr__, body, "
             "invariant, constructor; both halves of awaiting conditions) and the call is re-run once per crossing x fault kind "
             "(Exception, BaseException subclass, KeyboardInterrupt, CancelledError inside; throw/cancel/close at every suspension "
             "of the hand-driven coroutine); thorough adds all sequences of two faulted calls. After each, 21 probe calls in the "
             "same context must reproduce their pristine-state traces and outcomes, and the surfaced exception must be or chain "
             "the injected one.",
        note="Trusted: CPython, the harness. Faults are injected at entries into user code and at suspension points, not between "
             "arbitrary bytecodes (asynchronous signals are not modelled).",
        technique="exhaustive fault-point enumeration (every boundary crossing x fault kind, sequences of <=2) with differential probe oracle",
        design="3/C11"),
    "C12": dict(
        text="Stateless schedule exploration of the real code. asyncio: real Tasks on a virtual event loop (no selector, virtual "
             "clock); at every loop step every choice among the ready handles is explored (all interleavings) for 2-3 concurrent "
             "contracted calls (same async function with passing/violating arguments, same method on one / two objects) with "
             "suspension points in coroutine preconditions, captures, postconditions and bodies, under four context-inheritance "
             "modes (fresh; copied after the parent's completed / violating checked call; parent participating). Threads: real "
             "threads under a baton scheduler with iterative preemption bounding 0..2; scheduling points at entries into user "
             "code (G1) and, via sys.settrace, at every line of the wrapper frames (G2) or of any _checkers.py frame (G3, bound 1); "
             "contexts empty / copy_context().run copied before / after the parent's first checked call. Oracle: each call's "
             "verdict and own event log equal those of the same call run alone in a fresh context; no deadlock.",
        note="Trusted: CPython (GIL; line-granular preemption is the finest modelled), asyncio.Task semantics, the schedulers "
             "(first schedule replayed twice, divergence on prefix replay is a hard error). Caps are reported: exhaustive=false "
             "when a scenario hits its schedule budget.",
        technique="stateless model checking of schedules (all task interleavings; preemption-bounded thread interleavings) on the real implementation",
        design="3/C12"),
    "C13": dict(
        text="(a) Twin exploration: every family-F program of the async-capable kinds is rendered twice - def and async def, "
             "identical otherwise - and executed for all truth assignments x 5 body outcome/mutation modes; the two real event "
             "logs and outcomes must be equal (differential, no reference model). (b) Placement product: condition/capture kind "
             "(plain, coroutine function, lambda returning a coroutine / done Future / custom awaitable) x role (pre, post, "
             "capture, invariant) x sync|async x function|method x awaited value: awaited before being judged on async callables, "
             "ValueError (never truthy) for coroutines on sync callables and for invariants.",
        note="Trusted: CPython; coroutines are hand-driven. Futures/custom awaitables on sync callables, as captured values and as "
             "invariants are not judged (statement silent).",
        technique="exhaustive differential enumeration of sync/async twin programs on the real code; placement product table",
        design="3/C13"),
    "C14": dict(
        text="Differential exploration against a bare twin (same source without the icontract decorators): (a) callable kind x "
             "signature x every decorator stack of 1-4 contract decorators with a foreign functools.wraps decorator at every "
             "position (thorough: two) with all contracts satisfied - objects received by the body, identity of result / raised "
             "exception, foreign-decorator run counts, name/qualname/doc/module/annotations/signature/abstractness/coroutine-ness, "
             "__wrapped__ chain down to the original, exactly one checker; (b) class style x invariant check_on combinations x "
             "object|DBC x subclass variant (none, without __init__, with __init__(z), overriding __new__) with a fixed script of "
             "constructions and member uses that must behave as on the twin; invariant(...)(K) is K.",
        note="Trusted: CPython, the twin renderer. Rebuilding kwargs into new dict objects is not observable by value identity and not claimed.",
        technique="exhaustive differential enumeration (contracted program vs bare twin) of decorator stacks, signatures and class shapes on the real code",
        design="3/C14"),
    "C15": dict(
        text="Exhaustive product over configurations: 9 sub-processes (interpreter mode normal/-O/-OO x ICONTRACT_SLOW unset/empty/"
             "non-empty), in each decorator kind (require, ensure, snapshot over an enabled / same-option / missing postcondition, "
             "invariant) x enabled option (default, True, False, icontract.SLOW) x target kind (function, method, static, class "
             "method, property, async, class), judged against the table computed from the statement (same object, vars unchanged, "
             "no condition/capture call, error not validated when disabled; enforced when enabled). Explicitly enabled family-F "
             "programs, generated messages and reserved-name misuse cases are compared item by item between the three modes.",
        note="Trusted: CPython's -O semantics, the child script (no assert statements). The seed list of configurations is complete "
             "for the statement (3 x 3).",
        technique="exhaustive enumeration of the configuration product in sub-processes, table oracle + cross-mode differential",
        design="3/C15"),
    "C17": dict(
        text="History exploration over definition sequences on the real metaclass/decorators: after a contracted root class every "
             "sequence of definition steps (class with bases DBC | one | two existing classes in either order x invariant "
             "check_on x method/property contracts; decorated module-level function) is replayed on a fresh namespace - quick: "
             "depth 2 over the small alphabet; thorough: depth 2 over the full alphabet and depth 3 over the small one. Before "
             "and after the last step of every history all earlier classes/functions are observed: condition names in "
             "__invariants__/__invariants_on_call__/__invariants_on_setattr__ (and whether the class owns the list), checker "
             "lists of method and property, own members, and probe verdicts + evaluation logs (construct, call, property, "
             "setattr) under all-true and every single-falsy table including the conditions the new step introduces.",
        note="Trusted: CPython, the observer. No state merging (every history is executed). Subclassing without DBC is excluded "
             "(documented as leaking).",
        technique="breadth-first exploration of definition histories on the real code with before/after differential observation of all earlier definitions",
        design="3/C17"),
    "C16": dict(
        text="Exhaustive exploration of family F (all kinds, sync/async, plain/DBC chains of <=3 classes, own and inherited "
             "stacks of pre/post/snapshot/invariant, two decorator layouts, foreign functools.wraps decorators at top/middle/"
             "bottom, def and lambda conditions, four error forms) x all truth assignments (<=6 conditions; above: all with <=3 "
             "falsy): the complete real event log and the reported error must equal the reference order.",
        note="Trusted: CPython, renderer, reference. Where the statement leaves freedom (error of a failed non-final group "
             "prepared eagerly; re-evaluation of a violated lambda at most once) the reference accepts both.",
        technique="explicit exhaustive enumeration on the real code, full event-log equality with a reference interpreter",
        design="3/C16"),
    "C18": dict(
        text="Exhaustive exploration of family-F programs (all callable kinds incl. property accessors, constructors, static/class "
             "methods; DBC chains with gaps; foreign functools.wraps decorators at top/middle/bottom; def and lambda conditions) x "
             "all truth assignments: the verdict obtained by evaluating the documented introspection lists by hand (find_checker, "
             "__preconditions__ as DNF groups, snapshots, __postconditions__, class __invariants__ - as the documented "
             "integrators do) must equal the verdict of the real call; the lists must name exactly the effective contracts of "
             "the declaration; exactly one checker per stack. 14 class-creation shapes (DBC subclasses, invariant classes, "
             "multiple inheritance, metaclass=DBCMeta directly, dynamic DBCMeta(...), __init_subclass__ overrides, slots, "
             "abstract) must each be announced exactly once to a patched registration hook.",
        note="Trusted: CPython, family-F renderer/reference for the expected lists, the hand evaluator (mirrors tests/test_for_integrators.py).",
        technique="exhaustive enumeration on the real code: manual evaluation of introspected contract lists vs the wrapper's verdict (differential)",
        design="3/C18"),
    "C19": dict(
        text="Exhaustive product misuse kind x decorator kind x callable kind (function, method, static, class method, property "
             "setter, async function, async method), with legal control cases; every case is executed in three observable stages "
             "(decorator creation, decoration / class creation, call) and must fail at the documented stage with the documented "
             "exception class, never silently pass, and must not evaluate the condition or run the body when rejected.",
        note="Trusted: CPython; the table of documented moments is taken from the property statement.",
        technique="exhaustive enumeration of the misuse x decorator x callable-kind product, staged execution on the real code",
        design="3/C19"),
    "C20": dict(
        text="Exhaustive enumeration of a finite configuration space: sub-processes with PYTHONHASHSEED from a fixed list (6 quick / "
             "10 thorough) each run all 24 keyword-argument permutations x 3 repetitions with other violations in between, "
             "dict insertion orders, 3-element sets with programmed hashes in all 6 iteration orders, unrepresentable arguments "
             "for lambda and named conditions, _ARGS/_KWARGS named / not named, 25 values around the a_repr limits x default "
             "a_repr and two user a_repr x pre/post/invariant, failing all() witnesses, and the depth-1 expression grammar. "
             "Messages must be byte-identical across seeds, permutations and repetitions; every value line equals the "
             "contract's own a_repr.repr(value); value lines are sorted by expression text.",
        note="Trusted: CPython, reprlib (its sorting of sets/dicts needs orderable elements). The seed list is a bounded enumeration; "
             "exhaustive refers to that list.",
        technique="exhaustive enumeration of keyword permutations x hash seeds x repetitions x size classes in sub-processes, cross-run byte comparison",
        design="3/C20"),
}

NOT_APPLICABLE = []
ALL_IDS = [json.loads(l)["id"] for l in open(os.path.join(HERE, "properties.jsonl"))]


def main():
    checks = []
    for pid in sorted(CHECKS):
        c = CHECKS[pid]
        checks.append({
            "property_id": pid,
            "quick_cmd": "./check {} --tier quick".format(pid),
            "thorough_cmd": "./check {} --tier thorough".format(pid),
            "evidence_file": "/verif/evidence/{}.json".format(pid),
            "replay_cmd_template": "./check {} --replay {{path}}".format(pid),
            "engine": "mc",
            "level_claimed": {"category": "model_checking", "text": c["text"], "design_ref": c["design"]},
            "level_note": c["note"],
            "technique": c["technique"],
        })
    manifest = {
        "version": 1,
        "setup_cmd": "/venv/bin/python -c \"import asttokens, sys; sys.path.insert(0, '/repo'); import icontract\"",
        "hooks": {
            "guard": "ICONTRACT_VERIF",
            "enable": "no source hooks are needed: checks import /repo's working tree directly (sys.path[0]=/repo, private pycache) "
                      "and observe through instrumented user code, sys.settrace and a virtual event loop",
            "baseline_off_cmd": "/verif/tools/run_baseline.py /repo",
            "source_commits": [],
            "add_only": True,
        },
        "engines": [{
            "name": "mc",
            "path": "/verif/mc",
            "serves_properties": sorted(CHECKS),
            "kind_free_text": "hand-written explicit-state / stateless explorer for Python: exhaustive product enumeration, history BFS, "
                              "fault-point enumeration, asyncio-task and thread schedule exploration, all on the real implementation",
        }],
        "checks": checks,
        "not_applicable": NOT_APPLICABLE + [
            {"property_id": pid, "reason": "not claimed yet: the bounded-exhaustive check for it (DESIGN.md section 3) is still under construction"}
            for pid in ALL_IDS if pid not in CHECKS and pid not in [n["property_id"] for n in NOT_APPLICABLE]],
        "notes": "Every check explores the implementation itself (no separate model), so traces_validated_against_impl equals the "
                 "number of executions. known_findings.json lists recorded defects (open) and repaired ones (fixed:).",
    }
    with open(os.path.join(HERE, "MANIFEST.json"), "w") as fh:
        json.dump(manifest, fh, indent=1)
    import jsonschema  # noqa
    jsonschema.validate(manifest, json.load(open("/root/.vp/MANIFEST.schema.json")))
    print("MANIFEST.json written and valid:", len(checks), "checks")


if __name__ == "__main__":
    main()
