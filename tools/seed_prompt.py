#!/venv/bin/python
"""Print the prompt for a mutation sub-agent: tools/seed_prompt.py C01 <tag>  (creates the worktree too)."""
import json, subprocess, sys
pid, tag = sys.argv[1], sys.argv[2]
props = {json.loads(l)["id"]: json.loads(l) for l in open("/verif/properties.jsonl")}
p = props[pid]
wt = "/tmp/wt_{}".format(tag)
subprocess.run(["git", "-C", "/repo", "worktree", "add", "-q", "--detach", wt, "HEAD"], check=True)
out = "/tmp/seed_{}".format(tag)
print(f"""You are helping to evaluate a verification harness by producing realistic, subtle BUGS ("seeded changes") in a Python library.

The library is icontract (design-by-contract decorators for Python). You have your own scratch git worktree of it at {wt} . Work ONLY inside {wt} and write your deliverables to {out}/ (create it). Do NOT read or touch /verif or /repo (other people's work lives there and looking at it would spoil the experiment). There is no network.

The semantic property you must BREAK:

  Title: {p['title']}
  Statement: {p['statement']}
  Quantified over: {p['quantifier']['text']}
  Why the existing tests cannot settle it: {p['why_tests_cant']}
  Code most relevant: {', '.join(p['anchors']['files'])}

Your task: produce TWO different, independent changes (patch A and patch B) to the library source under {wt}/icontract/ such that for each of them:
  1. the library still imports and the existing test suite still passes exactly as before. Run it with
        cd {wt} && /venv/bin/python -m pytest -q -p no:cacheprovider --timeout=900 2>&1 | tail -15
     On the unmodified tree exactly these 6 tests fail (they need tools/env that are absent) and 358 pass; the same must hold with your change:
        tests/test_globals.py::TestSlow::test_slow_set, tests/test_inheritance_postcondition.py::TestInvalid::test_abstract_method_not_implemented,
        tests/test_inheritance_precondition.py::TestInvalid::test_abstract_method_not_implemented, and the 3 tests in tests/test_mypy_decorators.py
  2. the change makes the library VIOLATE the property above for some program/input/history, but NOT in a way ordinary use would expose at once: it should need something specific to manifest - e.g. a particular callable kind (classmethod, property setter, async def, __init__ ...), a particular stack size or position, a particular combination (inheritance + snapshot), a multi-step sequence of operations, an unusual but legal input, a particular interleaving or fault, or two cooperating edits that each look fine alone. Think of the kind of regression a plausible refactoring or "optimisation" or partial bug-fix would introduce. Do not just delete a whole feature or add an obviously malicious special case on a magic value.
  3. you provide a small stand-alone demonstration program {out}/demo_A.py (resp. demo_B.py) that uses only the public icontract API, run as
        cd {wt} && /venv/bin/python {out}/demo_A.py
     which exits 0 and prints OK on the UNMODIFIED library and exits non-zero (printing what went wrong) with your patch applied. Verify both directions yourself.

Deliverables in {out}/ :
  patch_A.diff, patch_B.diff  - each produced with `git -C {wt} diff` against the unmodified worktree HEAD, each applying on its own to a clean tree (make patch A, save the diff, `git -C {wt} checkout -- .`, then make patch B)
  demo_A.py, demo_B.py
  notes.md - for each patch: what it changes, which clause of the property it breaks, what exactly is needed for it to manifest, and the commands you ran with their results (test suite result with the patch; demo result with and without).
Leave the worktree clean (`git -C {wt} checkout -- .`) when you are done. Use `/venv/bin/python` (3.12) for everything. Keep patches small (a few lines each). Reply with a short summary of the two changes when finished.""")
