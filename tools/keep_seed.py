#!/venv/bin/python
"""tools/keep_seed.py <name> <property> <patch> <demo> <needs-text> -- store a confirmed seeded change."""
import json, os, shutil, subprocess, sys
name, prop, patch, demo, needs = sys.argv[1:6]
d = os.path.join("/verif/seeded", name)
os.makedirs(d, exist_ok=True)
shutil.copy(patch, os.path.join(d, "patch.diff"))
shutil.copy(demo, os.path.join(d, "demo.py"))
head = subprocess.run(["git", "-C", "/repo", "rev-parse", "--short", "HEAD"], capture_output=True, text=True).stdout.strip()
meta = {
    "breaks_property": prop,
    "needs_to_manifest": needs,
    "origin": "independent sub-agent given only the property text and a scratch worktree",
    "confirmed": {
        "repo_head_when_confirmed": head,
        "ran": ["tools/mutest.sh (scratch copy of /repo): repository test suite with the patch = 358/358 stable tests pass",
                "demo.py on the clean copy exits 0, on the patched copy exits non-zero"],
    },
    "caught_by": [],
}
json.dump(meta, open(os.path.join(d, "meta.json"), "w"), indent=1)
print("kept", d)
