"""Child process of C20: runs with one PYTHONHASHSEED; prints JSON {"messages": {...}, "local": [...violations...]}."""
import itertools
import json
import math
import os
import re
import reprlib
import sys

sys.path.insert(0, os.environ["VERIF_C20_VERIF"])
from mc import core, expr  # noqa

icontract = core.bind_repo()

SRC = '''\
import math
import reprlib
import icontract
R1 = reprlib.Repr()
R1.maxstring = R1.maxlist = R1.maxtuple = R1.maxset = R1.maxdict = R1.maxother = R1.maxlong = 1
R10 = reprlib.Repr()
R10.maxstring = R10.maxother = 10
R10.maxlist = R10.maxtuple = R10.maxset = R10.maxdict = 10
R10.maxlevel = 2
class Cls: pass
def helper(): pass
class WithMethod:
    def meth(self): pass
WM = WithMethod()

@icontract.require(lambda a, b, c, d: a + b + c + d > 100)
def s_perm(a, b, c, d):
    return 1

RSMALL = reprlib.Repr()
RSMALL.maxdict = 2

@icontract.require(lambda a: a > 100, a_repr=RSMALL)
def s_perm_many(a, b, c, d, e, f, **extra):
    return 1

@icontract.require(lambda a: a > 100)
def s_ticket(a, b, c, d):
    return 1

@icontract.require(lambda tags, cfg: len(tags) > 10 and cfg)
def s_hash(tags, cfg, extra=frozenset(["q", "rr", "sss"])):
    return 1

def named_cond(a, cb, klass, mod, fn, meth):
    return False
@icontract.require(named_cond)
def s_named(a, cb, klass, mod, fn, meth, other=3):
    return 1

@icontract.require(lambda a, cb, klass, mod, fn, meth: a > 100)
def s_lambda_unrepresentable(a, cb, klass, mod, fn, meth, other=3):
    return 1

# calls, subscripts and attributes whose VALUE is a class / function / method / module / builtin
@icontract.require(lambda a, tbl: type(a) == str and tbl["f"] is None and tbl["k"] is None and getattr(a, "bit_length") is None and ident_fn(len) is None)
def s_unrepresentable_results(a, tbl, other=3):
    return 1
def ident_fn(v):
    return v

@icontract.require(lambda a: a > 100)
def s_args_hidden(a, *args, **kwargs):
    return 1

@icontract.require(lambda a, _ARGS, _KWARGS: a > 100 and _ARGS and _KWARGS)
def s_args_named(a, *args, **kwargs):
    return 1

@icontract.require(lambda words: all(len(w) < 3 for w in words))
def s_all_default(words):
    return 1

@icontract.require(lambda words: all(len(w) < 3 for w in words), a_repr=R10)
def s_all_r10(words):
    return 1

@icontract.require(lambda groups: all(len(g) < 2 for g in groups))
def s_all_sets(groups):
    return 1

@icontract.require(lambda v: v is None)
def s_size_default(v):
    return 1

@icontract.require(lambda v: v is None, a_repr=R10)
def s_size_r10(v):
    return 1

@icontract.require(lambda v: v is None, a_repr=R1)
def s_size_r1(v):
    return 1

@icontract.ensure(lambda result, v: result is None and v is None, a_repr=R10)
def s_size_post_r10(v):
    return v

def make_limited(limit):
    def set_limit(v):
        nonlocal limit
        limit = v
    @icontract.require(lambda x: x < limit)
    def limited(x):
        return x
    return limited, set_limit

def make_defaulted(limit):
    # one code object, one function object per call: the default value belongs to the function object
    @icontract.require(lambda x, limit=limit: x < limit)
    def defaulted(x):
        return x
    return defaulted

def make_defaulted_named(limit):
    def below(x, limit=limit):
        return x < limit
    @icontract.ensure(below)
    def defaulted(x):
        return x
    return defaulted

class Ledger:
    def __init__(self, entries):
        self.entries = entries
    def __repr__(self):
        return "Ledger"

@icontract.require(lambda ledger: (
    ledger.entries
    .count(0) > 5))
def s_multiline_chain(ledger):
    return 1

@icontract.invariant(lambda self: self.v is None, a_repr=R10)
class SInv:
    def __init__(self, v):
        self.v = v
    def __repr__(self):
        return "SInv"
'''


class E:
    """Orderable element with a programmable hash (to force every iteration order of a small set)."""

    def __init__(self, i, h):
        self.i, self.h = i, h

    def __hash__(self):
        return self.h

    def __eq__(self, other):
        return self.i == other.i

    def __lt__(self, other):
        return self.i < other.i

    def __repr__(self):
        return "E({})".format(self.i)


def has_line(msg, want):
    """``want`` is a value line of the message (possibly sharing the first line with the condition text)."""
    return any(ln == want or ln.endswith(": " + want) for ln in msg.split("\n"))


def norm(msg):
    return re.sub(r"File \S+, line \d+", "File F, line N", msg)


def violation_message(_target, *a, **k):
    try:
        _target(*a, **k)
    except icontract.ViolationError as e:
        return norm(str(e))
    except BaseException as e:  # noqa
        return "OTHER:" + type(e).__name__ + ":" + str(e)[:200]
    return "NO-VIOLATION"


def main():
    ns = core.load_source(SRC, "c20")
    out = {}
    local = []

    def same(label, msgs):
        if len(set(msgs)) != 1:
            local.append({"symptom": "message_differs_between_equivalent_calls", "scenario": label, "detail": "{} distinct messages, e.g. {!r} vs {!r}".format(
                len(set(msgs)), msgs[0][:300], [m for m in msgs if m != msgs[0]][0][:300])})
        out[label] = msgs[0]

    # 1. every permutation of the keyword arguments, repeated with other violations in between
    vals = {"a": 1, "b": 2, "c": 3, "d": 4}
    msgs = []
    for rep in range(3):
        for perm in itertools.permutations(vals):
            msgs.append(violation_message(ns["s_perm"], **{k: vals[k] for k in perm}))
            if rep == 1:
                violation_message(ns["s_hash"], tags={"p"}, cfg={})
    same("perm", msgs)
    # 1a. ... more arguments than any size limit of the contract's a_repr (limits bound single values, not the list of arguments),
    # passed by keyword in rotated / reversed orders, some of them through **extra
    vals6 = {"a": 1, "b": 2, "c": 3, "d": 4, "e": 5, "f": 6, "g": 7, "h": 8}
    names6 = list(vals6)
    orders = [names6[i:] + names6[:i] for i in range(len(names6))] + [list(reversed(names6))]
    same("perm_many", [violation_message(ns["s_perm_many"], **{k: vals6[k] for k in order}) for order in orders])
    # 1b. ... with values whose repr depends on mutable global state (a running ticket number): the values must be rendered in an
    # order which does not depend on the order of the keywords, else the text does
    class Ticket:
        counter = [0]

        def __init__(self, tag):
            self.tag = tag

        def __repr__(self):
            Ticket.counter[0] += 1
            return "{}#{}".format(self.tag, Ticket.counter[0])
    tmsgs = []
    for perm in itertools.permutations(("b", "c", "d")):
        Ticket.counter[0] = 0
        kw = {k: Ticket(k) for k in perm}
        tmsgs.append(violation_message(ns["s_ticket"], a=0, **kw))
    same("perm_stateful_repr", tmsgs)
    # 2. sets / dicts of strings under this hash seed; dict built in different insertion orders
    tags = {"x", "yy", "zzz", "w", "vvvvv"}
    m = []
    for order in itertools.permutations([("k1", 1), ("k2", 2), ("k3", 3)]):
        m.append(violation_message(ns["s_hash"], tags=set(sorted(tags, reverse=bool(len(m) % 2))), cfg=dict(order)))
    out["hash_cfg_orders"] = m  # dict order is insertion order: reprlib sorts keys -> must agree
    if len(set(m)) != 1:
        local.append({"symptom": "message_depends_on_dict_insertion_order", "scenario": "hash", "detail": str(m[:2])[:400]})
    # 2b. programmed hashes: all iteration orders of a 3-element set
    pm = []
    for hs in itertools.permutations([1, 2, 3]):
        s = {E(i, h) for i, h in zip(range(3), hs)}
        pm.append(violation_message(ns["s_hash"], tags=s, cfg={"k": 1}))
    same("programmed_hash", pm)
    # 2c. sets whose elements have no total order (mixed types; frozensets, which are ordered by inclusion only)
    out["mixed_set"] = violation_message(ns["s_hash"], tags={1, "a", (2,), "bb", None}, cfg={"k": 1})
    out["set_of_frozensets"] = violation_message(ns["s_hash"], tags={frozenset(["a"]), frozenset(["b"]), frozenset(["c", "d"]), frozenset(["e"])}, cfg={"k": 1})
    # 3. unrepresentable values are left out (named condition and lambda condition)
    args = dict(a=1, cb=(lambda: 1), klass=ns["Cls"], mod=math, fn=len, meth=ns["WM"].meth)
    for label, fn in (("named", ns["s_named"]), ("lambda_unrep", ns["s_lambda_unrepresentable"])):
        msg = violation_message(fn, **args)
        out[label] = msg
        for bad in ("cb was", "klass was", "mod was", "fn was", "meth was", "<function", "<class", "<module", "<built-in", "<bound method"):
            if bad in msg.split("\n", 1)[-1]:
                local.append({"symptom": "unrepresentable_value_listed", "scenario": label, "detail": "{!r} in {!r}".format(bad, msg[:400])})
                break
        if "a was 1" not in msg or "other was 3" not in msg:
            local.append({"symptom": "representable_argument_missing", "scenario": label, "detail": msg[:300]})
    # 3b. ... also when the class / function / builtin is the RESULT of a call or a subscript inside the condition
    for cond_src, call_kwargs in (
            ("type(a) == str", {}), ("tbl['f'] is None", {}), ("tbl['k'] is None", {}), ("getattr(a, 'bit_length') is None", {}), ("ident_fn(len) is None", {}),
            ("a.__add__ is None", {}), ("str.upper is None", {}), ("type(a).__add__ is None", {}), ("ident_fn(a.__eq__) is None", {}),
            ("tbl.get is None", {}), ("dict.fromkeys is None", {}),
            # callables which are neither functions nor methods in the narrow sense
            ("cached_fn(a) is None", {}), ("ident_fn(cached_fn) is None", {}), ("tbl['c'] is None", {}), ("Cls2.sm is None", {}), ("tbl['s'] is None", {}),
            # iterators made inside the condition: their default representation is an address
            ("zip(tbl, tbl) is None", {}), ("map(ident_fn, [a]) is None", {}), ("iter([a]) is None", {}), ("reversed([a]) is None", {}),
            ("enumerate([a]) is None", {}), ("filter(None, [a]) is None", {}), ("ident_fn(v for v in [a]) is None", {}),
            # loop variables of a traced all(...) which are functions / classes
            ("all(p(a) > 5 for p in (ident_fn,))", {}), ("all(k is None for k in (Cls2, a))", {})):
        src2 = "import functools\nimport icontract\ndef ident_fn(v):\n    return v\n@functools.lru_cache(maxsize=None)\ndef cached_fn(v):\n    return v\nclass Cls2:\n    @staticmethod\n    def sm():\n        return 1\nclass Tbl(dict):\n    def __repr__(self):\n        return 'Tbl'\n@icontract.require(lambda a, tbl: {})\ndef f(a, tbl, other=3):\n    return 1\n".format(cond_src)
        ns2 = core.load_source(src2, "c20u")
        msg = violation_message(ns2["f"], a=1, tbl=ns2["Tbl"](f=ns2["ident_fn"], k=ns2["Cls2"], c=ns2["cached_fn"], s=vars(ns2["Cls2"])["sm"]))
        is_iter = cond_src.split("(")[0] in ("zip", "map", "iter", "reversed", "enumerate", "filter") or "for v in" in cond_src
        out[("iter_result:" if is_iter else "unrep_result:") + cond_src] = msg
        body = msg.split("\n", 1)[-1]
        lines_ = [ln for ln in body.split("\n")[1:] if (" was " in ln or (ln.startswith("  ") and " = " in ln)) and not ln.startswith("tbl was")]
        for ln in lines_:
            if any(b in ln for b in ("<function", "<class", "<module", "<built-in", "<bound method", "<method", "<slot wrapper", "lru_cache_wrapper", "<staticmethod", "<zip", "<map", "iterator object", "<reversed", "<enumerate", "<filter", "<generator")):
                local.append({"symptom": "unrepresentable_value_listed", "scenario": "result_is_iterator" if is_iter else "result_of_call_or_subscript",
                              "detail": "{!r} in the message for {!r}: {!r}".format(ln, cond_src, msg[:300])})
                break
        if "a was 1" not in msg:
            local.append({"symptom": "representable_argument_missing", "scenario": "result_of_call_or_subscript", "detail": msg[:300]})
    # 3b'. ... whereas an ordinary value whose class merely defines __get__ (a descriptor-like object passed as an argument) is listed
    src_d = ("import icontract\nclass Field:\n    def __get__(self, obj, owner=None):\n        return self\n    def __repr__(self):\n        return 'Field()'\n"
             "@icontract.require(lambda a: a > 5)\ndef f(a, fld):\n    return 1\n")
    ns_d = core.load_source(src_d, "c20d")
    msg = violation_message(ns_d["f"], a=1, fld=ns_d["Field"]())
    out["descriptor_like_argument"] = msg
    if not has_line(msg, "fld was Field()"):
        local.append({"symptom": "representable_argument_missing", "scenario": "descriptor_like_argument", "detail": msg[:300]})
    # 3c. ... and the built-in names which are neither functions nor classes (NotImplemented, Ellipsis, __debug__, ...)
    for cond_src, name in (("a is NotImplemented", "NotImplemented"), ("a is Ellipsis", "Ellipsis"), ("__debug__ and a is None", "__debug__"),
                           ("a is not None and a is NotImplemented", "NotImplemented"), ("[a, Ellipsis][0] is None", "Ellipsis")):
        src3 = "import icontract\n@icontract.require(lambda a: {})\ndef f(a, other=3):\n    return 1\n".format(cond_src)
        ns3 = core.load_source(src3, "c20b")
        msg = violation_message(ns3["f"], a=1)
        out["builtin_name:" + cond_src] = msg
        if any(ln.startswith(name + " was ") for ln in msg.split("\n")) or (": " + name + " was ") in msg:
            local.append({"symptom": "unrepresentable_value_listed", "scenario": "builtin_name",
                          "detail": "the built-in {} is listed in the message for {!r}: {!r}".format(name, cond_src, msg[:300])})
        if "a was 1" not in msg:
            local.append({"symptom": "representable_argument_missing", "scenario": "builtin_name", "detail": msg[:300]})
    # 4. _ARGS/_KWARGS only when named
    msg = violation_message(ns["s_args_hidden"], 1, 2, 3, z=4)
    out["args_hidden"] = msg
    if "_ARGS" in msg or "_KWARGS" in msg:
        local.append({"symptom": "_ARGS_listed_although_not_named", "scenario": "args_hidden", "detail": msg[:300]})
    msg = violation_message(ns["s_args_named"], 1, 2, 3, z=4)
    out["args_named"] = msg
    if "_ARGS was (1, 2, 3)" not in msg or "_KWARGS was {'z': 4}" not in msg:
        local.append({"symptom": "_ARGS_not_listed_although_named", "scenario": "args_named", "detail": msg[:300]})
    # 5./6. sizes: every rendering equals the contract's own a_repr
    default = icontract.aRepr
    sizes = []
    for n in (255, 256, 257, 5000):
        sizes.append("s" * n)
    for n in (49, 50, 51, 500):
        sizes += [list(range(n)), tuple(range(n)), set(range(n)), {i: i for i in range(n)}, frozenset(range(n))]
    nested = 0
    for _ in range(7):
        nested = [nested, "x" * 300]
    sizes.append(nested)
    sizes.append({"k" * 300: ["v" * 300] * 60})
    sizes.append(12345678901234567890 ** 20)
    for fname, rp in (("s_size_default", default), ("s_size_r10", ns["R10"]), ("s_size_r1", ns["R1"]), ("s_size_post_r10", ns["R10"])):
        for i, v in enumerate(sizes):
            msg = violation_message(ns[fname], v)
            out["{}:{}".format(fname, i)] = msg
            want = "v was " + rp.repr(v)
            if not has_line(msg, want):
                local.append({"symptom": "value_not_rendered_through_contract_a_repr", "scenario": fname, "size_case": i,
                              "detail": "expected line {!r} in {!r}".format(want[:200], msg[:400])})
            longest = max(len(ln) for ln in msg.split("\n"))
            if rp is ns["R1"] and longest > 200:
                local.append({"symptom": "message_line_not_bounded", "scenario": fname, "size_case": i, "detail": "line of {} characters".format(longest)})
    for i, v in enumerate(sizes):
        msg = violation_message(ns["SInv"], v)
        out["inv:{}".format(i)] = msg
        want = "self.v was " + ns["R10"].repr(v)
        if not has_line(msg, want):
            local.append({"symptom": "value_not_rendered_through_contract_a_repr", "scenario": "invariant", "size_case": i, "detail": "expected {!r} in {!r}".format(want[:200], msg[:400])})
    # all(): the witnesses go through a_repr as well
    words = ["ab", "w" * 5000, "c"]
    for fname, rp in (("s_all_default", default), ("s_all_r10", ns["R10"])):
        msg = violation_message(ns[fname], words)
        out[fname] = msg
        want = "  w = " + rp.repr(words[1])
        if not has_line(msg, want):
            local.append({"symptom": "all_witness_not_rendered_through_a_repr", "scenario": fname, "detail": "expected {!r}; message lines {}".format(
                want[:120], [ln[:80] for ln in msg.split("\n")])})
    groups = [{"a"}, {"x", "yy", "zzz", "w", "vvvvv"}]
    msg = violation_message(ns["s_all_sets"], groups)
    out["s_all_sets"] = msg
    want = "  g = " + default.repr(groups[1])
    if not has_line(msg, want):
        local.append({"symptom": "all_witness_not_rendered_through_a_repr", "scenario": "s_all_sets", "detail": msg[:400]})
    # history independence: a closure variable re-bound between two violations of the same contract
    f1, set1 = ns["make_limited"](10)
    m_first = violation_message(f1, 20)
    set1(1)
    m_after = violation_message(f1, 20)
    f2, _ = ns["make_limited"](1)
    m_fresh = violation_message(f2, 20)
    out["closure_first"], out["closure_after_rebinding"] = m_first, m_after
    if m_after != m_fresh:
        local.append({"symptom": "message_depends_on_earlier_violation", "scenario": "closure_rebinding",
                      "detail": "after an earlier violation with limit=10 the message for limit=1 is {!r}; in a fresh history it is {!r}".format(m_after, m_fresh)})
    # history independence: sibling contracts made from one lambda (one code object) with different default values
    for maker in ("make_defaulted", "make_defaulted_named"):
        for first, second in ((10, 20), (20, 10), (10, 10)):
            g1, g2 = ns[maker](first), ns[maker](second)
            m1 = violation_message(g1, 50)
            m2 = violation_message(g2, 50)
            m2_fresh = violation_message(ns[maker](second), 50)
            out["{}:{}:{}".format(maker, first, second)] = m2
            if m2 != m2_fresh or (maker == "make_defaulted" and not has_line(m2, "limit was {}".format(second))):
                local.append({"symptom": "message_depends_on_earlier_violation", "scenario": "sibling_defaults",
                              "detail": "{}: after a violation of the sibling with limit={} the message for limit={} is {!r}; in a fresh history {!r}".format(
                                  maker, first, second, m2, m2_fresh)})
    # expression texts spanning lines: sorted by expression text, not by rendered line
    msg = violation_message(ns["s_multiline_chain"], ns["Ledger"]([0, 7]))
    out["multiline_chain"] = msg
    i_short = msg.find("ledger.entries was ")
    i_long = msg.find("ledger.entries\n")
    i_long = msg.find("ledger.entries\n", i_long + 1) if msg.count("ledger.entries\n") > 1 else i_long
    # the condition text itself (first occurrence) also contains 'ledger.entries\n'; the value line is the LAST occurrence
    i_long = msg.rfind("ledger.entries\n")
    if i_short < 0 or i_long < 0 or not (i_short < i_long):
        local.append({"symptom": "value_lines_not_sorted", "scenario": "multiline_chain",
                      "detail": "'ledger.entries' must precede the longer text 'ledger.entries\\n    .count(0)': {!r}".format(msg)})
    # sorted lines: for every collected message the value lines are sorted by expression text
    for label, msg in list(out.items()):
        if not isinstance(msg, str) or msg.startswith(("OTHER", "NO-")) or label == "multiline_chain":
            continue
        body = msg.split("\n")[1:]
        texts = []
        for ln in body:
            if ln.startswith("  "):
                continue
            if " was " in ln:
                texts.append(ln.split(" was ")[0])
        # the first line of the body holds the condition text (and possibly the single value)
        texts_tail = texts[1:] if len(texts) > 1 and ":" in body[0] and " was " in body[0] else texts
        if texts_tail != sorted(texts_tail):
            local.append({"symptom": "value_lines_not_sorted", "scenario": label, "detail": str(texts_tail)})
    # the depth-1 part of the C06 grammar, with set/dict-of-strings valuations: messages are compared across hash seeds
    import ast
    import warnings
    warnings.simplefilter("ignore", SyntaxWarning)
    from mc.props import c06
    conds = [c for c in c06.conditions(1)]
    vals = expr.valuations()
    vals[1]["d"] = {"zz": 1, "a": 2, "mmm": 3, "b": 4}
    vals[2]["xs"] = [3, -1, 0]
    vals[3]["s"] = "hash"
    items = [(i, "require", c[3]) for i, c in enumerate(conds)]
    gns = core.load_source(c06.render_batch(items), "c20g")
    for i, role, cond in items:
        for vi, val in enumerate(vals):
            try:
                gns["FS"][i](**val)
            except icontract.ViolationError as e:
                out["g{}:{}".format(i, vi)] = norm(str(e))
            except BaseException as e:  # noqa
                out["g{}:{}".format(i, vi)] = "EXC:" + type(e).__name__
    print(json.dumps({"messages": out, "local": local, "seed": os.environ.get("PYTHONHASHSEED")}))


main()
