"""Child process of C15: runs under one (interpreter mode, ICONTRACT_SLOW) configuration and prints one JSON object.
No ``assert`` is used anywhere here (it runs under -O/-OO)."""
import json
import os
import re
import sys

sys.path.insert(0, os.environ["VERIF_C15_VERIF"])
from mc import core  # noqa

icontract = core.bind_repo()
from mc import fam  # noqa

COUNT = {"cond": 0, "cap": 0}


def make_target(kind):
    """Return (original object given to the decorator, how to wrap it afterwards, how to make a violating call)."""
    if kind in ("function", "method", "static", "classm", "property", "async"):
        if kind == "async":
            async def f(x):
                return x
        elif kind in ("method", "property"):
            def f(self, x=None):
                return x
        elif kind == "classm":
            def f(cls, x):
                return x
        else:
            def f(x):
                return x
        return f
    if kind == "property_object":
        # the decorator is written ABOVE @property: it is given the property object (here of a sub-class with a constructor that counts)
        class CountingProperty(property):
            made = [0]

            def __init__(self, *args, **kwargs):
                CountingProperty.made[0] += 1
                super().__init__(*args, **kwargs)

        def h(self):
            return 1
        return CountingProperty(h)
    if kind in ("static_object", "classm_object"):
        # the decorator is written ABOVE @staticmethod / @classmethod: it is given the descriptor object
        if kind == "static_object":
            def f(x):
                return x
            return staticmethod(f)

        def g(cls, x):
            return x
        return classmethod(g)
    if kind == "class":
        class K:
            def __init__(self, x=None):
                self.x = x

            def m(self):
                return 1
        return K
    if kind in ("plain_subclass", "dbc_subclass"):
        # a sub-class (with a public member of its own) of a class that already has an ENABLED invariant
        bases = (icontract.DBC,) if kind == "dbc_subclass" else ()

        @icontract.invariant(lambda self: True, enabled=True)
        class Base(*bases):
            def __init__(self, x=None):
                self.x = x

            def m(self):
                return 1

        class K(Base):
            def own(self):
                return 2

            @property
            def prop(self):
                return 3
        return K
    raise ValueError(kind)


def call_violating(kind, decorated):
    """Make a call that violates the (always false) condition."""
    try:
        if kind == "function":
            decorated(1)
        elif kind == "async":
            core.run_coro(decorated(1))
        elif kind == "method":
            class H:
                m = decorated
            H().m(1)
        elif kind == "static":
            class H:
                m = staticmethod(decorated)
            H.m(1)
        elif kind == "classm":
            class H:
                m = classmethod(decorated)
            H.m(1)
        elif kind == "property":
            class H:
                m = property(decorated)
            H().m
        elif kind in ("static_object", "classm_object"):
            class H:
                m = decorated
            H.m(1)
        elif kind == "property_object":
            class H:
                m = decorated
            H().m
        elif kind in ("class", "plain_subclass", "dbc_subclass"):
            decorated(1)
        return "ret"
    except BaseException as e:
        return "exc:" + type(e).__name__


def snapshot_vars(obj):
    return sorted((k, id(v)) for k, v in vars(obj).items())


def table():
    rows = []
    SLOW = icontract.SLOW
    _UNSET = object()
    # (falsy / truthy values that are not bool: e.g. os.environ.get("CHECKS") with the variable unset gives None)
    options = {"default": _UNSET, "True": True, "False": False, "SLOW": SLOW, "None": None, "0": 0, "empty_str": "", "1": 1}
    for deco in ("require", "ensure", "snapshot_over_enabled_ensure", "snapshot_over_same_ensure", "snapshot_over_bare", "invariant"):
        kinds = ["class", "plain_subclass", "dbc_subclass"] if deco == "invariant" else ["function", "method", "static", "classm", "property", "async", "static_object", "classm_object", "property_object"]
        for opt, val in options.items():
            for kind in kinds:
                if kind in ("static_object", "classm_object", "property_object") and deco not in ("require", "ensure", "snapshot_over_bare"):
                    continue  # (these two apply an ENABLED ensure first)
                kw = {} if val is _UNSET else {"enabled": val}
                COUNT["cond"] = COUNT["cap"] = 0
                row = {"deco": deco, "enabled": opt, "kind": kind}
                original = make_target(kind)
                given = original
                try:
                    if deco == "require":
                        def cond(x=None):
                            COUNT["cond"] += 1
                            return False
                        d = icontract.require(cond, **kw)
                    elif deco == "ensure":
                        def cond(result):
                            COUNT["cond"] += 1
                            return False
                        d = icontract.ensure(cond, **kw)
                    elif deco == "invariant":
                        def cond(self):
                            COUNT["cond"] += 1
                            return False
                        d = icontract.invariant(cond, **kw)
                    else:
                        def cap(x=None):
                            COUNT["cap"] += 1
                            return 1
                        d = icontract.snapshot(cap, name="s", **kw)
                        if deco == "snapshot_over_enabled_ensure":
                            given = icontract.ensure(lambda result: True, enabled=True)(original)
                        elif deco == "snapshot_over_same_ensure":
                            given = icontract.ensure(lambda result: True, **kw)(original)
                    row["create"] = "ok"
                except Exception as e:
                    row["create"] = "exc:" + type(e).__name__
                    rows.append(row)
                    continue
                before = snapshot_vars(given)
                try:
                    decorated = d(given)
                    row["apply"] = "ok"
                except Exception as e:
                    row["apply"] = "exc:" + type(e).__name__
                    rows.append(row)
                    continue
                row["same_object"] = decorated is given
                row["vars_unchanged"] = snapshot_vars(given) == before
                row["call"] = call_violating(kind, decorated)
                row["cond_calls"] = COUNT["cond"]
                row["cap_calls"] = COUNT["cap"]
                # an invalid error argument is validated only by an enabled decorator
                try:
                    cls = getattr(icontract, deco) if deco in ("require", "ensure", "invariant") else None
                    if cls is not None:
                        cls((lambda self: True) if deco == "invariant" else (lambda: True), error="not a valid error", **kw)
                        row["invalid_error"] = "accepted"
                except ValueError:
                    row["invalid_error"] = "ValueError"
                rows.append(row)
    return rows


def norm_msg(s):
    s = re.sub(r"verifgen_\w+", "MOD", s)
    s = re.sub(r"/verif-gen/\S+?\.py", "FILE", s)
    s = re.sub(r"0x[0-9a-f]+", "ADDR", s)
    return s


def family_digest():
    """Explicitly enabled contracts of a fixed family: logs, outcomes and messages (compared across modes by the parent)."""
    out = []
    specs = []
    for kind in fam.KINDS:
        for is_async in ([False, True] if kind in fam.ASYNCABLE else [False]):
            for (pre, post, snap, inv) in ((2, 0, 0, 0), (1, 2, 1, 1), (0, 1, 0, 2)):
                if inv and kind == "func":
                    inv = 0
                for style, err in (("def", "default"), ("lambda", "default"), ("lambda", "cls"), ("def", "fac")):
                    specs.append({"kind": kind, "is_async": is_async, "dbc": False,
                                  "levels": [{"pre": pre, "post": post, "snap": snap, "inv": inv}],
                                  "style": style, "err": err, "explicit_enabled": True})
            specs.append({"kind": kind, "is_async": is_async, "dbc": True, "levels": [{"pre": 1, "post": 1, "snap": 1, "inv": 1 if kind != "func" else 0},
                                                                                      {"pre": 1, "post": 1, "snap": 0, "inv": 0}],
                          "style": "lambda", "err": "default", "explicit_enabled": True} if kind != "func" else
                         {"kind": kind, "is_async": is_async, "levels": [{"pre": 3, "post": 3, "snap": 2}], "style": "lambda", "err": "default",
                          "explicit_enabled": True})
            if kind != "func":
                # the leaf overrides the member WITHOUT any contract of its own: everything it enforces is inherited
                for base_levels in ([{"pre": 1, "post": 1, "snap": 1, "inv": 1}], [{"pre": 2, "post": 0, "snap": 0, "inv": 0}, {"defines": False}],
                                    [{"pre": 0, "post": 2, "snap": 0, "inv": 0}]):
                    specs.append({"kind": kind, "is_async": is_async, "dbc": True,
                                  "levels": base_levels + [{"pre": 0, "post": 0, "snap": 0, "inv": 0, "defines": True}],
                                  "style": "def", "err": "cls", "explicit_enabled": True})
    for spec in specs:
        prog = fam.Program(spec)
        if prog.def_exc is not None:
            out.append(["def_exc", type(prog.def_exc).__name__])
            continue
        names = fam.relevant_names(spec)
        for truth in fam.limited_truths(names, max_full=4, max_falsy=1):
            ns = prog.ns
            log, outcome = prog.call(truth, "ret_obj", "append", "mixed")
            # the message text of the surfaced exception, normalised
            out.append([sorted(k for k, v in truth.items() if not v), [list(map(str, ev)) for ev in log], str(outcome)])
        prog.close()
    # messages of default errors (text is part of "enforced identically")
    msgs = []
    for cond, arg in (("lambda x: x > 3", 1), ("lambda x: len(str(x)) > 3 and x != 1", 1), ("lambda x: all(i > 0 for i in range(x))", 2)):
        src = "import icontract\n@icontract.require({}, enabled=True)\ndef f(x):\n    return x\n".format(cond)
        ns = core.load_source(src, "c15m")
        try:
            ns["f"](arg)
            msgs.append("ret")
        except BaseException as e:
            msgs.append(type(e).__name__ + ":" + norm_msg(str(e)))
    return out, msgs


def misuse():
    """Explicitly enabled contracts + reserved names: must behave identically in every interpreter mode."""
    res = []

    def attempt(label, fn):
        try:
            v = fn()
            res.append([label, "ret", repr(v)[:60]])
        except BaseException as e:
            res.append([label, "exc", type(e).__name__])

    def d1():
        @icontract.ensure(lambda result: True, enabled=True)
        def f(result):
            return result
        return f(1)

    def d2():
        @icontract.ensure(lambda result: True, enabled=True)
        def f(OLD):
            return OLD
        return f(1)

    def d3():
        @icontract.require(lambda _ARGS: len(_ARGS) == 0, enabled=True)
        def f(**kwargs):
            return sorted(kwargs)
        return f(_ARGS=(1, 2))

    def d4():
        @icontract.require(lambda _KWARGS: True, enabled=True)
        def f(**kwargs):
            return sorted(kwargs)
        return f(_KWARGS={})

    def d5():
        @icontract.require(lambda x: True, enabled=True)
        def f(_ARGS):
            return 1
        return f(1)

    def d6():
        @icontract.ensure(lambda result: True, enabled=True)
        async def f(result):
            return result
        return core.run_coro(f(1))

    def d7():
        class K:
            @icontract.ensure(lambda result: True, enabled=True)
            def m(self, result):
                return result
        return K().m(1)

    def d8():
        @icontract.snapshot(lambda x: x, enabled=True)
        def f(x):
            return x
        return f(1)

    def d9():
        @icontract.require(lambda x: x.nope, enabled=True)
        def f(x):
            return x
        return f(1)

    def d10():
        @icontract.snapshot(lambda x: x, name="a", enabled=True)
        @icontract.snapshot(lambda x: x, name="a", enabled=True)
        @icontract.ensure(lambda result: True, enabled=True)
        def f(x):
            return x
        return f(1)

    def d11():
        # explicitly enabled invariant; the constructor uses a public method of the half-built object
        @icontract.invariant(lambda self: self.v > 0, enabled=True)
        class A:
            def __init__(self):
                self.w = self.helper()
                self.v = 1

            def helper(self):
                return 5
        a = A()
        return (a.v, a.w, a.helper())

    def d12():
        @icontract.invariant(lambda self: self.v > 0, enabled=True)
        class A(icontract.DBC):
            def __init__(self):
                self.v = 1

        @icontract.invariant(lambda self: self.z > 0, enabled=True)
        class B(A):
            def __init__(self):
                super().__init__()
                self.z = 2
        b = B()
        return (b.v, b.z)

    def d13():
        @icontract.invariant(lambda self: self.v > 0, enabled=True)
        class A:
            def __init__(self, v):
                self.v = v

            def dec(self):
                self.v -= 1
        a = A(1)
        a.dec()
        return a.v

    def d14():
        @icontract.invariant(lambda self: len(self.items) < 2, enabled=True, check_on=icontract.InvariantCheckEvent.ALL)
        class A:
            def __init__(self):
                self.items = []
                self.items = [1]
                self.items = [1, 2]
        return A().items

    for i, fn in enumerate((d1, d2, d3, d4, d5, d6, d7, d8, d9, d10, d11, d12, d13, d14)):
        attempt("d{}".format(i + 1), fn)
    return res


def main():
    fd, msgs = family_digest()
    print(json.dumps({
        "debug": bool(__debug__), "slow_env": os.environ.get("ICONTRACT_SLOW"), "SLOW": bool(icontract.SLOW),
        "optimize": sys.flags.optimize, "table": table(), "family": fd, "messages": msgs, "misuse": misuse(),
    }))


main()
