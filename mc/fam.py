"""Family F: one contracted callable (any kind), optionally in a chain of DBC classes, with
instrumented conditions / captures / error factories / body.  Programs are JSON-able specs rendered to
real Python source using the public API; ``reference`` is an interpreter of the property statements.

spec = {
  kind: func|method|static|classm|pget|pset|pdel|init|new|call,
  is_async: bool, dbc: bool,
  levels: [ {pre:n, post:n, snap:n, inv:n, defines:bool}, ... ]   # base first; the call is made on the last
  style: def|lambda, err: default|cls|inst|fac, layout: grouped|interleaved,
  cap_alias: bool,
}
run-time parameters of one execution: truth table, body mode, mutation mode, call shape.
"""
import itertools
import re

from . import core

KINDS = ["func", "method", "static", "classm", "pget", "pset", "pdel", "init", "new", "call"]
ASYNCABLE = {"func", "method", "static", "classm", "call"}
CLASS_KINDS = set(KINDS) - {"func"}
SELF_PRIMARY = {"pget", "pdel"}
INV_BEFORE = {"method", "pget", "pset", "pdel", "call"}
INV_AFTER = INV_BEFORE | {"init", "new"}

BODY_MODES = ["ret_obj", "ret_none", "ret_zero", "ret_list", "ret_arg", "raise_exc", "raise_base", "raise_kbi"]
MUT_MODES = ["none", "append", "rebind"]
CALL_SHAPES = ["pos", "kw", "mixed"]


def primary(kind):
    if kind in SELF_PRIMARY:
        return "self"
    if kind == "pset":
        return "value"
    return "x"


def norm(spec):
    s = dict(spec)
    s.setdefault("is_async", False)
    s.setdefault("dbc", len(s["levels"]) > 1)
    s.setdefault("style", "def")
    s.setdefault("err", "default")
    s.setdefault("layout", "grouped")
    s.setdefault("cap_alias", False)
    s.setdefault("sibling_contract", False)  # pset/pdel: the (otherwise bare) getter of the same property carries contracts
    s.setdefault("explicit_enabled", False)  # add enabled=True to every contract decorator (C15: interpreter modes)
    s.setdefault("foreign", None)  # a foreign functools.wraps decorator on the leaf: None|top|mid|bottom
    s.setdefault("err_base", False)  # the error classes derive from BaseException (documented as supported)
    s.setdefault("recreate", False)  # re-create the leaf class from its own namespace (dataclass(slots=True) does)
    s.setdefault("post_old", "all")  # do postcondition *conditions* ask for OLD ("all") or only the error factories ("none")
    for lv in s["levels"]:
        lv.setdefault("pre", 0)
        lv.setdefault("post", 0)
        lv.setdefault("snap", 0)
        lv.setdefault("inv", 0)
        lv.setdefault("inv_on", "C" * lv["inv"])  # check_on of each invariant: C(ALL), S(ETATTR), A(LL)
        lv.setdefault("defines", True)
    return s


# ---------------------------------------------------------------------------------------------
# rendering

PRELUDE = '''\
import functools
import inspect
import icontract
def fw(fn):
    if inspect.iscoroutinefunction(fn):
        @functools.wraps(fn)
        async def w(*a, **k):
            LOG.append(("foreign",))
            return await fn(*a, **k)
    else:
        @functools.wraps(fn)
        def w(*a, **k):
            LOG.append(("foreign",))
            return fn(*a, **k)
    return w
LOG = []
T = {}
CUR = {}
CAPRET = {}
BODY = {"mode": "ret_obj", "mut": "none"}
class BodyExc(Exception): pass
class BodyBase(BaseException): pass
class Tick:
    def __await__(self):
        yield None
def _content(a):
    return tuple(a.data) if hasattr(a, "data") else tuple(a)
def _same(a):
    return a is CUR.get("A")
def _truth(name):
    return T.get(name, True)
def lam(role, name, a, result=None, OLD=None):
    # logging helper used by lambda-style conditions
    if role == "pre":
        LOG.append(("pre", name, _same(a)))
    elif role == "inv":
        LOG.append(("inv", name))
    else:
        LOG.append(("post", name, result is CUR.get("R"), _same(a), _content(a), _old(OLD)))
    return _truth(name)
def sib(role):
    LOG.append(("sibling", role))
    return _truth("sibling")
def _old(OLD):
    if OLD is None:
        return None
    return tuple(sorted((k, tuple(v), v is CAPRET.get(k)) for k, v in vars(OLD).items()))
def _finish_body(a):
    mut = BODY["mut"]
    target = a.data if hasattr(a, "data") else a
    if mut == "append":
        target.append(7)
    mode = BODY["mode"]
    if mode == "raise_exc":
        CUR["E"] = BodyExc("body"); raise CUR["E"]
    if mode == "raise_base":
        CUR["E"] = BodyBase("body"); raise CUR["E"]
    if mode == "raise_kbi":
        CUR["E"] = KeyboardInterrupt("body"); raise CUR["E"]
    if mode == "ret_none":
        CUR["R"] = None
    elif mode == "ret_zero":
        CUR["R"] = 0
    elif mode == "ret_list":
        CUR["R"] = []
    elif mode == "ret_arg":
        CUR["R"] = target
    else:
        CUR["R"] = object()
    return CUR["R"]
'''


def sees_old(spec, li):
    """Does a postcondition declared at level ``li`` have snapshots available (own or inherited)?"""
    if spec["kind"] in ("func", "init", "new"):
        return bool(spec["levels"][li]["snap"]) and spec["levels"][li]["defines"]
    return any(spec["levels"][k]["snap"] and spec["levels"][k]["defines"] for k in range(li + 1))


def cond_names(spec, li):
    lv = spec["levels"][li]
    return (
        ["p{}_{}".format(li, i) for i in range(lv["pre"])],
        ["q{}_{}".format(li, i) for i in range(lv["post"])],
        ["s{}_{}".format(li, i) for i in range(lv["snap"])],
        ["i{}_{}".format(li, i) for i in range(lv["inv"])],
    )


def _err_arg(spec, name):
    return _err_arg0(spec, name) + (", enabled=True" if spec.get("explicit_enabled") else "")


def _err_arg0(spec, name):
    err = spec["err"]
    if err == "default":
        return ""
    if err == "cls":
        return ", error=E_{}".format(name)
    if err == "inst":
        return ", error=EI_{}".format(name)
    if err == "fac":
        return ", error=EF_{}".format(name)
    raise ValueError(err)


def render(spec):
    spec = norm(spec)
    kind = spec["kind"]
    A = primary(kind)
    out = [PRELUDE]
    w = out.append
    nlev = len(spec["levels"])
    any_snap_upto = [sees_old(spec, li) for li in range(nlev)]

    # condition functions, error classes ("adef" style: conditions and captures are coroutine functions that suspend once
    # before they log; legal on async callables only)
    # "amix" style: every other condition / capture (the even ones of its role and level, i.e. the nearest one first) is a
    # coroutine function, the others are plain functions; from level to level the parity alternates
    def _co(name):
        # (parity of level + index: an inherited coroutine capture is followed by a plain one of the next level and vice versa)
        return spec["style"] == "adef" or (spec["style"] == "amix" and (int(name[1:].split("_")[0]) + int(name.rsplit("_", 1)[-1])) % 2 == 0)

    def ADEF_(name):
        return "async " if _co(name) else ""

    def ATICK_(name):
        return "    await Tick()\n" if _co(name) else ""
    for li in range(nlev):
        pres, posts, snaps, invs = cond_names(spec, li)
        for name in pres + posts + invs:
            w("class E_{0}({1}): pass\nEI_{0} = E_{0}('inst')\n".format(name, "BaseException" if spec.get("err_base") else "Exception"))
        for name in pres:
            w("def EF_{0}({1}):\n    LOG.append(('errfac', '{0}', _same({1})))\n    return E_{0}('fac')\n".format(name, A))
            if spec["style"] in ("def", "adef", "amix"):
                w("{2}def {0}({1}):\n{3}    LOG.append(('pre', '{0}', _same({1})))\n    return _truth('{0}')\n".format(name, A, ADEF_(name), ATICK_(name)))
        for name in posts:
            takes_old = any_snap_upto[li] and spec["post_old"] == "all"
            params = "result, {}".format(A) + (", OLD" if takes_old else "")
            eparams = "result, {}".format(A) + (", OLD" if any_snap_upto[li] else "")
            oldv = "OLD" if takes_old else "None"
            eoldv = "OLD" if any_snap_upto[li] else "None"
            w("def EF_{0}({1}):\n    LOG.append(('errfac', '{0}', _same({2}), _old({3})))\n    return E_{0}('fac')\n".format(name, eparams, A, eoldv))
            if spec["style"] in ("def", "adef", "amix"):
                w(
                    "{4}def {0}({1}):\n{5}    LOG.append(('post', '{0}', result is CUR.get('R'), _same({2}), _content({2}), _old({3})))\n"
                    "    return _truth('{0}')\n".format(name, params, A, oldv, ADEF_(name), ATICK_(name))
                )
        for name in snaps:
            ret = A if spec["cap_alias"] else "list(_content({}))".format(A)
            if spec["cap_alias"] and A == "self":
                ret = "self.data"
            if spec["style"] == "amix" and _co(name):
                # a plain function which hands back a coroutine (e.g. ``lambda lst: async_capture(lst)``): awaited where it stands
                w(
                    "async def {0}__impl({1}):\n    await Tick()\n    LOG.append(('cap', '{0}', _same({1}), _content({1})))\n"
                    "    CAPRET['{0}'] = {2}\n    return CAPRET['{0}']\ndef {0}({1}):\n    return {0}__impl({1})\n".format(name, A, ret)
                )
                continue
            w(
                "{3}def {0}({1}):\n{4}    LOG.append(('cap', '{0}', _same({1}), _content({1})))\n"
                "    CAPRET['{0}'] = {2}\n    return CAPRET['{0}']\n".format(name, A, ret, ADEF_(name), ATICK_(name))
            )
        for name in invs:
            w("def EF_{0}(self):\n    LOG.append(('errfac', '{0}', True))\n    return E_{0}('fac')\n".format(name))
            if spec["style"] in ("def", "adef", "amix"):
                w("def {0}(self):\n    LOG.append(('inv', '{0}'))\n    return _truth('{0}')\n".format(name))

    def deco_lines(li, indent):
        pres, posts, snaps, _ = cond_names(spec, li)
        req, ens, snp = [], [], []
        for name in pres:
            c = name if spec["style"] in ("def", "adef", "amix") else "lambda {0}: lam('pre', '{1}', {0})".format(A, name)
            req.append("@icontract.require({}{})".format(c, _err_arg(spec, name)))
        for name in posts:
            if spec["style"] in ("def", "adef", "amix"):
                c = name
            elif any_snap_upto[li] and spec["post_old"] == "all":
                c = "lambda result, {0}, OLD: lam('post', '{1}', {0}, result, OLD)".format(A, name)
            else:
                c = "lambda result, {0}: lam('post', '{1}', {0}, result)".format(A, name)
            ens.append("@icontract.ensure({}{})".format(c, _err_arg(spec, name)))
        for name in snaps:
            snp.append("@icontract.snapshot({0}, name='{0}'{1})".format(name, ", enabled=True" if spec.get("explicit_enabled") else ""))
        # top -> bottom; decorators are applied bottom-up so index 0 must be nearest the def
        if spec["layout"] == "grouped":
            lines = list(reversed(snp)) + list(reversed(req)) + list(reversed(ens))
        else:
            # interleaved: ensure/require alternate, nearest-first order preserved within each role
            mixed = []
            for a, b in itertools.zip_longest(ens, req):
                if a:
                    mixed.append(a)
                if b:
                    mixed.append(b)
            lines = list(reversed(snp)) + list(reversed(mixed))
        if spec["foreign"] and li == nlev - 1:
            pos = {"top": 0, "bottom": len(lines), "mid": len(lines) - 1 if len(lines) >= 2 else 0}[spec["foreign"]]
            lines.insert(pos, "@fw")
        return "".join(indent + ln + "\n" for ln in lines)

    adef = "async def" if spec["is_async"] else "def"
    tick = "    await Tick()\n" if spec["is_async"] else ""

    if kind == "func":
        w(deco_lines(0, ""))
        w("{} f(x, y):\n{}    LOG.append(('body', 'f', _same(x)))\n".format(adef, tick))
        w("    if BODY['mode'] == 'recurse' and not CUR.get('rec'):\n        CUR['rec'] = True\n        {}f(x, y)\n".format("await " if spec["is_async"] else ""))
        w("    if BODY['mut'] == 'rebind':\n        x = [99]\n")
        w("    return _finish_body(x)\n")
        return "".join(out)

    for li in range(nlev):
        lv = spec["levels"][li]
        _, _, _, invs = cond_names(spec, li)
        for name in reversed(invs):
            c = name if spec["style"] in ("def", "adef", "amix") else "lambda self: lam('inv', '{}', self)".format(name)
            on = lv["inv_on"][int(name.split("_")[1])]
            chk = {"C": "", "S": ", check_on=icontract.InvariantCheckEvent.SETATTR", "A": ", check_on=icontract.InvariantCheckEvent.ALL"}[on]
            w("@icontract.invariant({}{}{})\n".format(c, _err_arg(spec, name), chk))
        if li == 0:
            base = "icontract.DBC" if spec["dbc"] else "object"
        else:
            base = "L{}".format(li - 1)
        w("class L{}({}):\n".format(li, base))
        body_any = False
        if li == 0 and kind not in ("new",) and not (kind == "init" and lv["defines"]):
            w("    def __init__(self, *a, **k):\n        self.data = [5]\n")
            body_any = True
        if lv["defines"]:
            body_any = True
            qn = "L{}".format(li)
            ind = "    "
            sib_decos = ("    @icontract.require(lambda self: sib('pre'))\n    @icontract.ensure(lambda self, result: sib('post'))\n"
                         if spec["sibling_contract"] else "")
            def std_body(head):
                w("    {} {}:\n".format(adef, head))
                if spec["is_async"]:
                    w("        await Tick()\n")
                w("        LOG.append(('body', '{}', _same(x)))\n".format(qn))
                # body mode "recurse": the body calls the same callable once more (the inner call must be fully checked)
                selfcall = {"method": "self.m(x, y)", "call": "self(x, y)", "static": "L{}.m(x, y)".format(li), "classm": "cls.m(x, y)"}[kind]
                w("        if BODY['mode'] == 'recurse' and not CUR.get('rec'):\n            CUR['rec'] = True\n            {}{}\n".format(
                    "await " if spec["is_async"] else "", selfcall))
                w("        if BODY['mut'] == 'rebind':\n            x = [99]\n        return _finish_body(x)\n")

            if kind == "method" or kind == "call":
                nm = "m" if kind == "method" else "__call__"
                w(deco_lines(li, ind))
                std_body("{}(self, x, y)".format(nm))
            elif kind == "static":
                w("    @staticmethod\n" + deco_lines(li, ind))
                std_body("m(x, y)")
            elif kind == "classm":
                w("    @classmethod\n" + deco_lines(li, ind))
                std_body("m(cls, x, y)")
            elif kind == "pget":
                w("    @property\n" + deco_lines(li, ind))
                w("    def p(self):\n        LOG.append(('body', '{}', _same(self)))\n        return _finish_body(self)\n".format(qn))
            elif kind == "pset":
                w("    @property\n" + sib_decos + "    def p(self):\n        return 1\n")
                w("    @p.setter\n" + deco_lines(li, ind))
                w("    def p(self, value):\n        LOG.append(('body', '{}', _same(value)))\n".format(qn))
                w("        if BODY['mut'] == 'rebind':\n            value = [99]\n        return _finish_body(value)\n")
            elif kind == "pdel":
                w("    @property\n" + sib_decos + "    def p(self):\n        return 1\n")
                w("    @p.deleter\n" + deco_lines(li, ind))
                w("    def p(self):\n        LOG.append(('body', '{}', _same(self)))\n        return _finish_body(self)\n".format(qn))
            elif kind == "init":
                w(deco_lines(li, ind))
                w("    def __init__(self, x, y):\n        self.data = [5]\n        LOG.append(('body', '{}', _same(x)))\n".format(qn))
                w("        if BODY['mut'] == 'rebind':\n            x = [99]\n        _finish_body(x)\n        CUR['R'] = None\n")
            elif kind == "new":
                w(deco_lines(li, ind))
                w("    def __new__(cls, x, y):\n        LOG.append(('body', '{}', _same(x)))\n".format(qn))
                w("        if BODY['mut'] == 'rebind':\n            x = [99]\n        _finish_body(x)\n")
                w("        CUR['R'] = object.__new__(cls)\n        return CUR['R']\n")
            else:
                raise ValueError(kind)
        if not body_any:
            w("    pass\n")
    if spec.get("recreate"):
        # the leaf class is created once more from the namespace of the original class, the way
        # dataclasses.dataclass(slots=True) does: nothing about its contracts may change
        w("def _recreate(cls):\n    d = dict(cls.__dict__)\n    d.pop('__dict__', None)\n    d.pop('__weakref__', None)\n"
          "    return type(cls)(cls.__name__, cls.__bases__, d)\n")
        w("L{0} = _recreate(L{0})\n".format(nlev - 1))
    return "".join(out)


# ---------------------------------------------------------------------------------------------
# reference semantics (from the property statements)


def effective(spec):
    """Return (def_error, groups, posts, snaps, invs, target_level) for the call on the leaf."""
    spec = norm(spec)
    kind = spec["kind"]
    nlev = len(spec["levels"])
    own_only = kind in ("init", "new")
    groups = None  # None: not provided yet; [] : accepts everything
    posts, snaps, invs = [], [], []
    def_error = None
    target = None
    for li in range(nlev):
        lv = spec["levels"][li]
        pres, qs, ss, iv = cond_names(spec, li)
        invs.extend(iv)
        if not lv["defines"]:
            continue
        target = li
        if kind == "func" or own_only:
            groups = [pres] if pres else []
            posts, snaps = list(qs), list(ss)
            if ss and not qs:
                def_error = ("ValueError", li)  # snapshot without postcondition
            continue
        if ss and not qs:
            def_error = def_error or ("ValueError", li)
        if groups is None:
            groups = [pres] if pres else []
        elif groups == []:
            if pres:
                def_error = def_error or ("TypeError", li)
        else:
            if pres:
                groups = groups + [pres]
        posts = posts + qs
        snaps = snaps + ss
    if groups is None:
        groups = []
    return def_error, groups, posts, snaps, invs, target


def expected(spec, truth, body_mode="ret_obj", mut="none"):
    """Expected event log and outcome for one call (all call shapes are equivalent)."""
    spec = norm(spec)
    kind = spec["kind"]
    _, groups, posts, snaps, invs, target = effective(spec)
    lam_re = spec["style"] == "lambda" and spec["err"] in ("default", "cls")
    log = []
    tv = lambda n: truth.get(n, True)
    A_content0 = (5,) if kind in SELF_PRIMARY else (0,)

    def viol(name, ev, fac_extra=()):
        # a violated lambda condition is re-evaluated once to build the message
        # (the re-evaluation is "at most once": the re-evaluator skips sub-expressions it can not resolve)
        if lam_re:
            log.append(("?", ev))
        if spec["err"] == "fac":
            log.append(("errfac", name, True) + tuple(fac_extra))
        return log, ("exc", name)

    class_kind = kind != "func"
    if kind not in ("init", "new"):
        # around calls only the invariants whose check_on includes CALL are evaluated (after construction: all)
        invs = [n for n in invs if spec["levels"][int(n[1:n.index("_")])]["inv_on"][int(n.split("_")[1])] in "CA"]
    has_inv = class_kind and kind not in ("static", "classm") and invs
    if has_inv and kind in INV_BEFORE:
        for n in invs:
            ev = ("inv", n)
            log.append(ev)
            if not tv(n):
                return viol(n, ev)
    nown = sum(spec["levels"][-1][k] for k in ("pre", "post", "snap"))
    leaf_called = target == len(spec["levels"]) - 1
    foreign = spec["foreign"] if leaf_called else None
    if foreign == "mid" and nown < 2:
        foreign = "top"
    if foreign and nown == 0:
        foreign = "bottom"  # a bare wrapped function: inherited contracts are checked around the foreign wrapper
    if foreign == "mid":
        # the decorator sits between contract decorators; all contracts live in the single innermost checker
        foreign = "top"
    if foreign == "top":
        log.append(("foreign",))
    failed = None
    for g in groups:
        if failed is not None:
            # The statement does not say whether the error of a group that failed is prepared before the next
            # group is tried (the implementation does: message / error factory); both are accepted.
            if lam_re:
                log.append(("?", failed[1]))
            if spec["err"] == "fac":
                log.append(("?", ("errfac", failed[0], True)))
        failed = None
        for n in g:
            ev = ("pre", n, True)
            log.append(ev)
            if not tv(n):
                failed = (n, ev)
                break
        if failed is None:
            break
    if failed is not None:
        return viol(*failed)
    old = None
    if posts and snaps:
        old = []
        for n in snaps:
            log.append(("cap", n, True, A_content0))
            old.append(n)
    if foreign == "bottom":
        log.append(("foreign",))
    log.append(("body", "f" if kind == "func" else "L{}".format(target), True))
    if body_mode.startswith("raise"):
        return log, ("exc", "BODY")
    content = A_content0 + ((7,) if mut == "append" else ())
    if old is not None:
        if spec["cap_alias"]:
            oldv = tuple(sorted((n, content, True) for n in old))
        else:
            oldv = tuple(sorted((n, A_content0, True) for n in old))
    for n in posts:
        # a postcondition sees OLD only if a snapshot exists at or below its own level
        li = int(n[1 : n.index("_")])
        ov = None
        if sees_old(spec, li):
            ov = oldv if old is not None else None
        ev = ("post", n, True, True, content, ov if spec["post_old"] == "all" else None)
        log.append(ev)
        if not tv(n):
            return viol(n, ev, (ov,))
    if has_inv and kind in INV_AFTER:
        for n in invs:
            ev = ("inv", n)
            log.append(ev)
            if not tv(n):
                return viol(n, ev)
    return log, ("ret", True)


# ---------------------------------------------------------------------------------------------
# execution against the implementation


class Program:
    def __init__(self, spec):
        self.spec = norm(spec)
        self.src = render(self.spec)
        self.ns = None
        self.def_exc = None
        try:
            self.ns = core.fresh_ctx_run(core.load_source, self.src, "famF")
        except Exception as exc:  # definition-time rejection
            self.def_exc = exc
        self.obj = None
        if self.ns is not None and self.spec["kind"] not in ("func", "init", "new"):
            leaf = self.ns["L{}".format(len(self.spec["levels"]) - 1)]
            self.leaf = leaf
            try:
                self.obj = core.fresh_ctx_run(leaf)
            except Exception as exc:
                self.def_exc = exc

    def close(self):
        if self.ns is not None:
            core.unload_source(self.ns)

    def who(self, exc):
        ns = self.ns
        if exc is ns["CUR"].get("E"):
            return "BODY"
        err = self.spec["err"]
        tname = type(exc).__name__
        if err == "default":
            import icontract

            if type(exc) is icontract.ViolationError:
                m = re.search(r"(?:^|\n)(?:[^\n]*: )?(?:lam\('\w+', ')?([pqi]\d+_\d+)\b", str(exc))
                if m:
                    return m.group(1)
            return ("other", tname, str(exc)[:160])
        if tname.startswith("E_"):
            name = tname[2:]
            if err == "inst" and exc is not ns["EI_" + name]:
                return ("other", "not-the-instance", name)
            if err == "fac" and exc.args != ("fac",):
                return ("other", "not-from-factory", name)
            if err == "cls" and (len(exc.args) != 1 or name not in str(exc.args[0])):
                return ("other", "class-not-instantiated-with-message", name)
            return name
        return ("other", tname, str(exc)[:160])

    def call(self, truth, body_mode="ret_obj", mut="none", shape="pos"):
        """One execution in a fresh context. Returns (log, outcome)."""
        return core.fresh_ctx_run(self._call, truth, body_mode, mut, shape)

    def call_twice(self, truth, body_mode="ret_obj", mut="none", shape="pos"):
        """The same call twice in ONE fresh context (a history of length 2). Returns ((log, outcome), (log, outcome))."""
        def go():
            return self._call(truth, body_mode, mut, shape), self._call(truth, body_mode, mut, shape)
        return core.fresh_ctx_run(go)

    def _call(self, truth, body_mode, mut, shape):
        ns, spec = self.ns, self.spec
        kind = spec["kind"]
        log = ns["LOG"]
        del log[:]
        ns["T"].clear()
        ns["T"].update(truth)
        ns["CUR"].clear()
        ns["CAPRET"].clear()
        ns["BODY"]["mode"] = body_mode
        ns["BODY"]["mut"] = mut
        x, y = [0], [1]
        obj = self.obj
        if obj is not None:
            obj.__dict__["data"] = [5]
        ns["CUR"]["A"] = obj if kind in SELF_PRIMARY else x
        if shape == "pos":
            a, k = (x, y), {}
        elif shape == "kw":
            a, k = (), {"x": x, "y": y}
        else:
            a, k = (x,), {"y": y}
        try:
            if kind == "func":
                r = ns["f"](*a, **k)
            elif kind in ("method", "static", "classm"):
                r = obj.m(*a, **k)
            elif kind == "call":
                r = obj(*a, **k)
            elif kind == "pget":
                r = obj.p
            elif kind == "pset":
                obj.p = x
                r = None
            elif kind == "pdel":
                del obj.p
                r = None
            elif kind in ("init", "new"):
                r = self.ns["L{}".format(len(spec["levels"]) - 1)](*a, **k)
            if spec["is_async"]:
                r = core.run_coro(r)
        except BaseException as exc:  # includes the injected BaseException kinds
            return list(log), ("exc", self.who(exc))
        if kind in ("pset", "pdel"):
            ok = True
        elif kind == "init":
            ok = isinstance(r, self.ns["L{}".format(len(spec["levels"]) - 1)])
        else:
            ok = r is ns["CUR"].get("R")
        return list(log), ("ret", ok)


def truth_tables(names):
    for bits in itertools.product([True, False], repeat=len(names)):
        yield dict(zip(names, bits))


def all_cond_names(spec):
    spec = norm(spec)
    names = []
    for li in range(len(spec["levels"])):
        pres, qs, _, iv = cond_names(spec, li)
        names += pres + qs + iv
    return names


def relevant_names(spec):
    """Names of the conditions that are in effect for the call on the leaf."""
    _, groups, posts, _, invs, _ = effective(spec)
    names = [n for g in groups for n in g] + list(posts)
    spec = norm(spec)
    if spec["kind"] not in ("func", "static", "classm"):
        names += invs
    return names


def replay_script(spec, truth, body_mode, mut, shape):
    src = render(spec)
    kind = norm(spec)["kind"]
    nlev = len(norm(spec)["levels"])
    drv = [
        "\n\n# ---- driver (stand-alone replay; run with /venv/bin/python, PYTHONPATH=/repo) ----\n",
        "if __name__ == '__main__':\n",
        "    T.update({!r})\n    BODY['mode'] = {!r}; BODY['mut'] = {!r}\n".format(truth, body_mode, mut),
        "    x, y = [0], [1]\n",
    ]
    if kind not in ("func", "init", "new"):
        drv.append("    obj = L{}()\n    del LOG[:]\n".format(nlev - 1))
    drv.append("    CUR['A'] = {}\n".format("obj" if kind in SELF_PRIMARY else "x"))
    args = {"pos": "x, y", "kw": "x=x, y=y", "mixed": "x, y=y"}[shape]
    callsrc = {
        "func": "f({})".format(args),
        "method": "obj.m({})".format(args),
        "static": "obj.m({})".format(args),
        "classm": "obj.m({})".format(args),
        "call": "obj({})".format(args),
        "pget": "obj.p",
        "pset": "setattr(obj, 'p', x)",
        "pdel": "delattr(obj, 'p')",
        "init": "L{}({})".format(nlev - 1, args),
        "new": "L{}({})".format(nlev - 1, args),
    }[kind]
    drv.append("    try:\n        r = {}\n".format(callsrc))
    if norm(spec)["is_async"]:
        drv.append("        try:\n            while True: r.send(None)\n        except StopIteration as s:\n            r = s.value\n")
    drv.append("        print('returned', r)\n    except BaseException as e:\n        print('raised', type(e).__name__, e)\n")
    drv.append("    print('LOG:')\n    for ev in LOG: print('  ', ev)\n")
    return src + "".join(drv)


# ---------------------------------------------------------------------------------------------
# generic comparison of one execution with the reference, projected on the roles a property speaks about


def project(log, roles):
    return [ev for ev in log if (ev[1][0] if ev[0] == "?" else ev[0]) in roles]


def feat(spec, shape="-", body_mode="-", mut="-"):
    spec = norm(spec)
    return {
        "kind": spec["kind"], "is_async": spec["is_async"], "dbc": spec["dbc"], "nlev": len(spec["levels"]),
        "pre": "/".join(str(lv["pre"]) for lv in spec["levels"]),
        "post": "/".join(str(lv["post"]) for lv in spec["levels"]),
        "snap": "/".join(str(lv["snap"]) for lv in spec["levels"]),
        "inv": "/".join(str(lv["inv"]) for lv in spec["levels"]),
        "inv_on": "/".join(lv["inv_on"] for lv in spec["levels"]),
        "defines": "/".join("1" if lv["defines"] else "0" for lv in spec["levels"]),
        "style": spec["style"], "err": spec["err"], "err_base": spec.get("err_base", False), "layout": spec["layout"], "cap_alias": spec["cap_alias"],
        "post_old": spec["post_old"], "foreign": spec["foreign"], "recreate": spec.get("recreate", False), "sibling_contract": spec["sibling_contract"],
        "shape": shape, "body": body_mode, "mut": mut,
    }


def limited_truths(names, max_full=6, max_falsy=2):
    """All assignments if few names, else all assignments with at most ``max_falsy`` falsy conditions."""
    if len(names) <= max_full:
        for t in truth_tables(names):
            yield t
        return
    for k in range(0, max_falsy + 1):
        for falsy in itertools.combinations(names, k):
            yield {n: (n not in falsy) for n in names}


def first_diff(exp, obs):
    """First difference between expected and observed logs; ("?", ev) entries of ``exp`` are optional."""
    i = j = 0
    while i < len(exp):
        a = exp[i]
        if a[0] == "?":
            if j < len(obs) and obs[j] == a[1]:
                j += 1
            i += 1
            continue
        if j >= len(obs):
            return j, a, None
        if a != obs[j]:
            return j, a, obs[j]
        i += 1
        j += 1
    if j < len(obs):
        return j, None, obs[j]
    return None
