"""Shared machinery: binding to the code under test, parallel exhaustive enumeration, evidence,
replay artefacts and the known-findings matcher.

Harness code never uses ``assert`` (C15 runs parts of it under -O).
"""
import contextvars
import hashlib
import json
import linecache
import multiprocessing
import os
import re
import sys
import tempfile
import time
import traceback

VERIF_DIR = os.path.dirname(os.path.dirname(os.path.abspath(__file__)))
REPO = os.environ.get("VERIF_REPO", "/repo")
NPROC = int(os.environ.get("VERIF_NPROC", str(os.cpu_count() or 4)))
PY = "/venv/bin/python"


def bind_repo():
    """Make ``import icontract`` resolve to the working tree under test and nothing else."""
    repo = os.path.realpath(REPO)
    if sys.path[0] != repo:
        sys.path.insert(0, repo)
    if getattr(sys, "pycache_prefix", None) is None:
        sys.pycache_prefix = tempfile.mkdtemp(prefix="verif_pyc_")
        import atexit
        import shutil

        atexit.register(shutil.rmtree, sys.pycache_prefix, True)
    import icontract

    where = os.path.realpath(icontract.__file__)
    if not where.startswith(repo + os.sep):
        raise SystemExit("icontract imported from {} and not from {}".format(where, repo))
    return icontract


def seed():
    try:
        return int(os.environ.get("VERIF_SEED", "0"))
    except ValueError:
        return 0


def rotate(items, k=None):
    """VERIF_SEED only rotates the enumeration order; the explored set is the same."""
    items = list(items)
    if not items:
        return items
    k = (seed() if k is None else k) % len(items)
    return items[k:] + items[:k]


def fresh_ctx_run(fn, *args, **kwargs):
    """Run one execution in a brand-new, empty context (the library keeps its state in a ContextVar)."""
    return contextvars.Context().run(fn, *args, **kwargs)


_SRC_COUNTER = [0]


def load_source(src, tag="prog", extra_globals=None):
    """Compile ``src`` under a unique pseudo file name registered with linecache so that
    inspect.findsource (used by the library for lambda conditions) finds it."""
    _SRC_COUNTER[0] += 1
    fname = "/verif-gen/{}_{}_{}.py".format(tag, os.getpid(), _SRC_COUNTER[0])
    lines = src.splitlines(True)
    linecache.cache[fname] = (len(src), None, lines, fname)
    code = compile(src, fname, "exec")
    ns = {"__name__": "verifgen_{}_{}".format(tag, _SRC_COUNTER[0]), "__file__": fname}
    if extra_globals:
        ns.update(extra_globals)
    exec(code, ns)
    return ns


def unload_source(ns):
    linecache.cache.pop(ns.get("__file__"), None)


def run_coro(coro):
    """Drive a coroutine to completion; every suspension just resumes (sequential semantics)."""
    try:
        while True:
            coro.send(None)
    except StopIteration as stop:
        return stop.value


class Tick:
    """An awaitable that suspends exactly once."""

    def __await__(self):
        yield None


# ---------------------------------------------------------------------------------------------
# violations, replays, known findings


class Violation:
    def __init__(self, prop, symptom, features, detail, spec=None, script=None):
        self.prop = prop
        self.symptom = symptom  # short stable code
        self.features = features  # flat dict of scalars describing the failing case
        self.detail = detail  # human text: expected vs observed
        self.spec = spec  # JSON-able case
        self.script = script  # stand-alone python reproducing it (optional)

    def to_json(self):
        return {
            "property": self.prop,
            "symptom": self.symptom,
            "features": self.features,
            "detail": self.detail,
            "spec": self.spec,
        }


def load_known():
    path = os.path.join(VERIF_DIR, "known_findings.json")
    try:
        with open(path) as fh:
            data = json.load(fh)
    except FileNotFoundError:
        return []
    return [e for e in data.get("findings", []) if e.get("status") == "open"]


def _match_value(constraint, value):
    if isinstance(constraint, dict):
        if "re" in constraint:
            return value is not None and re.search(constraint["re"], str(value)) is not None
        if "in" in constraint:
            return value in constraint["in"]
        if "ge" in constraint:
            return value is not None and value >= constraint["ge"]
        return False
    return value == constraint


def match_known(v, known):
    for entry in known:
        if entry["property"] != v.prop:
            continue
        if entry.get("symptom") is not None and not _match_value(entry["symptom"], v.symptom):
            continue
        ok = True
        for key, constraint in entry.get("where", {}).items():
            if not _match_value(constraint, v.features.get(key)):
                ok = False
                break
        if ok:
            return entry
    return None


def write_replay(v):
    d = os.path.join("/tmp/verif_mut_replays" if os.environ.get("VERIF_NOEVIDENCE") == "1" else os.path.join(VERIF_DIR, "replays"), v.prop)
    os.makedirs(d, exist_ok=True)
    blob = json.dumps(v.to_json(), sort_keys=True, default=str)
    h = hashlib.sha1(blob.encode()).hexdigest()[:12]
    path = os.path.join(d, h + ".json")
    with open(path, "w") as fh:
        json.dump(v.to_json(), fh, indent=1, sort_keys=True, default=str)
    if v.script:
        with open(os.path.join(d, h + ".py"), "w") as fh:
            fh.write(v.script)
    return path


# ---------------------------------------------------------------------------------------------
# parallel exhaustive map


def _worker(args):
    fn, chunk, wid = args
    t0 = time.time()
    try:
        res = fn(chunk)
    except BaseException:  # a harness crash must be loud
        return {"crash": traceback.format_exc(), "wid": wid}
    res["wid"] = wid
    res["wall"] = time.time() - t0
    return res


def pmap(fn, items, nproc=None):
    """Partition ``items`` round-robin over forked workers; ``fn(chunk) -> dict`` of results.

    Returns the list of per-worker dicts. A crashing worker aborts the run (exit 2): a check that
    cannot run to completion must not report success."""
    nproc = nproc or NPROC
    items = list(items)
    nproc = max(1, min(nproc, len(items)))
    chunks = [items[i::nproc] for i in range(nproc)]
    if nproc == 1:
        out = [_worker((fn, chunks[0], 0))]
    else:
        ctx = multiprocessing.get_context("fork")
        with ctx.Pool(nproc) as pool:
            out = pool.map(_worker, [(fn, c, i) for i, c in enumerate(chunks)])
    for r in out:
        if "crash" in r:
            sys.stderr.write("HARNESS CRASH in worker {}:\n{}\n".format(r["wid"], r["crash"]))
            raise SystemExit(2)
    return out


_KNOWN = None


class Acc:
    """Per-worker accumulator of coverage counters and violations."""

    MAXV = 25

    def __init__(self):
        self.evaluations = 0
        self.transitions = 0
        self.nontrivial = set()
        self.states = set()
        self.outcomes = set()
        self.violations = []
        self.nviol = 0
        self._per_symptom = {}
        self.known = {}
        self.samples = []
        self.extra = {}

    def case(self, key, nontrivial=True, events=0, outcome=None):
        self.evaluations += 1
        self.transitions += events
        h = hash(key)
        self.states.add(h)
        if nontrivial:
            self.nontrivial.add(h)
        if outcome is not None:
            self.outcomes.add(outcome)

    def bump(self, name, n=1):
        self.extra[name] = self.extra.get(name, 0) + n

    def violation(self, v):
        # Known findings are matched right here, in the worker, so that EVERY violating case is classified; only
        # the violations that match no known finding are kept (at most MAXV per symptom) and reported.
        global _KNOWN
        if _KNOWN is None:
            _KNOWN = load_known()
        entry = match_known(v, _KNOWN)
        if entry is not None:
            self.known[entry["id"]] = self.known.get(entry["id"], 0) + 1
            return
        self.nviol += 1
        n = self._per_symptom.get(v.symptom, 0)
        if n < self.MAXV:
            self._per_symptom[v.symptom] = n + 1
            self.violations.append(v)

    def sample(self, s, cap=3):
        if len(self.samples) < cap:
            self.samples.append(s)

    def result(self):
        return {
            "evaluations": self.evaluations,
            "transitions": self.transitions,
            "nontrivial": len(self.nontrivial),
            "states": len(self.states),
            "outcomes": sorted(self.outcomes, key=str),
            "violations": self.violations,
            "nviol": self.nviol,
            "known": self.known,
            "samples": self.samples,
            "extra": self.extra,
        }


def merge(results):
    tot = {
        "evaluations": 0,
        "transitions": 0,
        "nontrivial": 0,
        "states": 0,
        "outcomes": set(),
        "violations": [],
        "nviol": 0,
        "known": {},
        "samples": [],
        "extra": {},
    }
    for r in results:
        for k in ("evaluations", "transitions", "nontrivial", "states", "nviol"):
            tot[k] += r.get(k, 0)
        tot["outcomes"].update(r.get("outcomes", []))
        tot["violations"].extend(r.get("violations", []))
        tot["samples"].extend(r.get("samples", []))
        for k, n in r.get("extra", {}).items():
            tot["extra"][k] = tot["extra"].get(k, 0) + n
        for k, n in r.get("known", {}).items():
            tot["known"][k] = tot["known"].get(k, 0) + n
    return tot


def merge_totals(parts):
    """Merge several already-merged totals (sub-families of one property)."""
    tot = merge([])
    for p in parts:
        for k in ("evaluations", "transitions", "nontrivial", "states", "nviol"):
            tot[k] += p[k]
        tot["outcomes"].update(p["outcomes"])
        tot["violations"].extend(p["violations"])
        tot["samples"].extend(p["samples"])
        for k, n in p["extra"].items():
            tot["extra"][k] = tot["extra"].get(k, 0) + n
        for k, n in p["known"].items():
            tot["known"][k] = tot["known"].get(k, 0) + n
    return tot


# ---------------------------------------------------------------------------------------------
# finishing a check: known findings, VIOLATION lines, evidence


def finish(prop, tier, tot, t0, rule, assumptions, bounds, exhaustive=True, extra_cov=None):
    known = load_known()
    if os.environ.get("VERIF_DUMP"):  # debugging aid: all kept violations, one JSON per line
        with open(os.environ["VERIF_DUMP"], "w") as fh:
            for v in tot["violations"]:
                fh.write(json.dumps({"symptom": v.symptom, "features": v.features, "detail": v.detail[:500]}, default=str) + "\n")
    by_id = {e["id"]: e for e in known}
    new = list(tot["violations"])
    seen_known = {fid: [by_id[fid], n] for fid, n in tot["known"].items() if fid in by_id}
    # violations beyond the per-symptom cap were counted but not kept (all of them are new ones)
    unclassified = tot["nviol"] - len(tot["violations"])
    for fid, (entry, n) in sorted(seen_known.items()):
        print("KNOWN-FINDING: property={} {} [{}; {} matching case(s) this run]".format(
            prop, entry["title"], fid, n))
    paths = []
    seen_sym = {}
    for v in new:
        # one replay per (symptom, feature signature), at most 10 lines
        sig = (v.symptom, json.dumps(v.features, sort_keys=True, default=str))
        if sig in seen_sym:
            continue
        seen_sym[sig] = True
        if len(paths) >= 10 and v.symptom in {x.symptom for x in new[:new.index(v)]}:
            continue  # beyond ten replays only the first case of each further symptom is written out
        path = write_replay(v)
        paths.append(path)
        print("VIOLATION property={} replay={}".format(prop, path))
        print("  symptom={} {}".format(v.symptom, v.detail[:600].replace("\n", "\n    ")))
    if unclassified > 0:
        print("NOTE: {} further new violating case(s) beyond the per-symptom cap were counted but not written out".format(unclassified))
    cov = {
        "evaluations": tot["evaluations"],
        "distinct_nontrivial": tot["nontrivial"],
        "rule": rule,
        "samples": tot["samples"][:6] or ["(none)"],
        "states": max(1, tot["states"]),
        "transitions": max(1, tot["transitions"]),
        "traces_validated_against_impl": tot["evaluations"],
        "exhaustive": bool(exhaustive),
        "bounds": bounds,
        "distinct_outcomes": len(tot["outcomes"]),
        "known_findings_seen": {fid: n for fid, (e, n) in seen_known.items()},
        "counters": tot["extra"],
        "repo": os.path.realpath(REPO),
    }
    if extra_cov:
        cov.update(extra_cov)
    ev = {
        "property_id": prop,
        "tier": tier,
        "seed": seed(),
        "level": "model_checking",
        "coverage": cov,
        "assumptions": assumptions,
        "wall_s": round(time.time() - t0, 2),
        "violations": len(new),
    }
    if os.environ.get("VERIF_NOEVIDENCE") != "1":  # set by the mutant runner only (scratch copies of the repo)
        os.makedirs(os.path.join(VERIF_DIR, "evidence"), exist_ok=True)
        with open(os.path.join(VERIF_DIR, "evidence", prop + ".json"), "w") as fh:
            json.dump(ev, fh, indent=1, sort_keys=True, default=str)
    print("{} tier={} executions={} distinct_nontrivial={} states={} transitions={} outcomes={} "
          "known={} new_violations={} wall={}s".format(
              prop, tier, tot["evaluations"], tot["nontrivial"], tot["states"], tot["transitions"],
              len(tot["outcomes"]), sum(n for _, n in seen_known.values()), len(new), ev["wall_s"]))
    return 1 if new else 0
