"""C03 - invariants are checked around every public operation on a constructed object.

Class shapes x member table x check_on combinations x operation histories x "the k-th invariant evaluation is
falsy".  A monitor derived from the statement judges every real event log."""
import itertools
import json

from .. import core

PROP = "C03"

CHECK = {"C": "icontract.InvariantCheckEvent.CALL", "S": "icontract.InvariantCheckEvent.SETATTR",
         "A": "icontract.InvariantCheckEvent.ALL"}

PRELUDE = '''\
import dataclasses
import functools
import typing
import icontract
LOG = []
FALSY = {"k": -1}
CNT = {"n": 0}
def _inv(name):
    LOG.append(("inv", name))
    i = CNT["n"]
    CNT["n"] += 1
    return i != FALSY["k"]
def RUN(c):
    try:
        while True: c.send(None)
    except StopIteration as s:
        return s.value
class Tick:
    def __await__(self):
        yield None
class Boom(Exception): pass
class posprop(property):
    """a sub-class of property whose constructor takes positional arguments only (no fget=/fset=/fdel=/doc= keywords)"""
    def __init__(self, a=None, b=None, c=None, d=None, /):
        super().__init__(a, b, c, d)
'''

MEMBERS = '''\
    def pub(self):
        LOG.append(("body", "pub"))
        return 1
    def _prot(self):
        LOG.append(("body", "_prot"))
        return 1
    def __priv(self):
        LOG.append(("body", "__priv"))
        return 1
    def call_priv(self):
        LOG.append(("body", "call_priv"))
        self.__priv()
        self._prot()
        return 1
    def __call__(self):
        LOG.append(("body", "__call__"))
        return 1
    def __bool__(self):
        LOG.append(("body", "__bool__"))
        return True
    async def apub(self):
        await Tick()
        LOG.append(("body", "apub"))
        return 1
    @property
    def p(self):
        LOG.append(("body", "p.get"))
        return 1
    @p.setter
    def p(self, value):
        LOG.append(("body", "p.set"))
    @p.deleter
    def p(self):
        LOG.append(("body", "p.del"))
    @posprop
    def pp(self):
        LOG.append(("body", "pp.get"))
        return 1
    @pp.setter
    def pp(self, value):
        LOG.append(("body", "pp.set"))
    @pp.deleter
    def pp(self):
        LOG.append(("body", "pp.del"))
    @classmethod
    def cm(cls):
        LOG.append(("body", "cm"))
        return 1
    @staticmethod
    def sm():
        LOG.append(("body", "sm"))
        return 1
    def __repr__(self):
        LOG.append(("body", "__repr__"))
        return "K()"
    @functools.singledispatchmethod
    def sd(self, a):
        LOG.append(("body", "sd"))
        return "object"
    @sd.register
    def _(self, a: int):
        LOG.append(("body", "sd"))
        return "int"
'''

GETATTRIBUTE = '''\
    def __getattribute__(self, name):
        if not name.startswith("__"):
            LOG.append(("body", "__getattribute__"))
        return object.__getattribute__(self, name)
'''


def inv_names(prefix, checks):
    return ["{}{}{}".format(prefix, i, c) for i, c in enumerate(checks)]


def render(spec):
    w = [PRELUDE]
    rinv = inv_names("R", spec["invs"])
    cinv = inv_names("D", spec["child"]["invs"]) if spec["child"] else []
    for n in rinv + cinv:
        w.append("class E_{0}(Exception): pass\ndef iv_{0}(self):\n    return _inv('{0}')\n".format(n))

    def decos(names):
        # index 0 is applied first, i.e. it is the decorator nearest the class statement
        return "".join("@icontract.invariant(iv_{0}, error=E_{0}, check_on={1})\n".format(n, CHECK[n[-1]]) for n in reversed(names))

    style, base = spec["style"], spec["base"]
    bases = "icontract.DBC" if base == "DBC" else ""
    if style == "namedtuple":
        w.append(decos(rinv) + "class Root(typing.NamedTuple):\n    v: int = 1\n" + MEMBERS.replace("def __bool__", "def _unused_bool"))
    elif style == "dataclass":
        w.append(decos(rinv) + "@dataclasses.dataclass\nclass Root{}:\n    v: int = 1\n".format("(" + bases + ")" if bases else "") + MEMBERS)
    else:
        w.append(decos(rinv) + "class Root{}:\n".format("(" + bases + ")" if bases else ""))
        if style in ("list_base", "exc_base"):
            # the constructor is the C-level one of a built-in base (list.__init__, Exception.__init__)
            w[-1] = decos(rinv) + "class Root({}{}):\n".format("list" if style == "list_base" else "Exception", ", " + bases if bases else "")
            w.append("    v = 1\n")
        if style == "slots":
            w.append("    __slots__ = ('v', 'w')\n")
        if style in ("list_base", "exc_base"):
            pass
        elif style == "no_init":
            w.append("    v = 1\n")
        elif style == "aliased":
            # the constructor and __setattr__ are helper functions bound under the special names by assignment
            w.append("    def _setup(self):\n        LOG.append(('ctor_enter', 'Root'))\n        self.v = 1\n        LOG.append(('ctor_exit', 'Root'))\n"
                     "    __init__ = _setup\n"
                     "    def _assign(self, name, value):\n        object.__setattr__(self, name, value)\n    __setattr__ = _assign\n")
        elif style == "factory_new":
            # the base class has no constructor of its own; its __new__ is a factory which gives an instance of the
            # sub-class (which HAS a constructor) when the base class is called (the pathlib.Path pattern)
            w.append("    v = 1\n    def __new__(cls, *a, **k):\n        LOG.append(('new_enter',))\n"
                     "        obj = super().__new__(Child if cls is Root else cls)\n        LOG.append(('new_exit',))\n        return obj\n")
        elif style == "new_chain":
            # no constructor; the __new__ of the base and the one of the child chain to each other
            w.append("    v = 1\n    def __new__(cls, *a, **k):\n        LOG.append(('new_enter',))\n"
                     "        obj = super().__new__(cls)\n        LOG.append(('new_exit',))\n        return obj\n")
        elif style == "user_new":
            w.append("    def __new__(cls, *a, **k):\n        LOG.append(('new_enter',))\n        obj = super().__new__(cls)\n"
                     "        obj.v = 0\n        LOG.append(('new_exit',))\n        return obj\n")
            w.append("    def __init__(self):\n        LOG.append(('ctor_enter', 'Root'))\n        self.v = 1\n        LOG.append(('ctor_exit', 'Root'))\n")
        else:
            # boom=True: the constructor body raises (used for re-initialising an existing object: the error is the caller's to handle)
            w.append("    def __init__(self, boom=False):\n        LOG.append(('ctor_enter', 'Root'))\n        self.v = 1\n"
                     "        if boom:\n            LOG.append(('ctor_exit', 'Root'))\n            raise Boom()\n        LOG.append(('ctor_exit', 'Root'))\n")
        if style == "getattribute":
            w.append(GETATTRIBUTE)
        if style == "own_delattr":
            # a __delattr__ defined in Python: a special method like any other (checked with the CALL invariants)
            w.append("    def __delattr__(self, name):\n        LOG.append(('body', '__delattr__'))\n        object.__delattr__(self, name)\n")
        w.append(MEMBERS)
    ch = spec["child"]
    if ch and ch.get("mixin"):
        # a contract-less mix-in: its public method reaches the child over another path than the invariants do
        w.append("class Mixin:\n    def mx(self):\n        LOG.append(('body', 'mx'))\n        return 5\n")
    if ch:
        w.append(decos(cinv) + ("@dataclasses.dataclass(slots=True)\n" if ch.get("dc_slots") else "@dataclasses.dataclass\n" if ch.get("dc_plain") else "")
                 + "class Child({}):\n".format({None: "Root", "after": "Root, Mixin", "before": "Mixin, Root"}[ch.get("mixin")]))
        if ch.get("dc_slots") or ch.get("dc_plain"):
            # dataclass(slots=True) creates the class a second time from the namespace of the first one
            w.append("    z: int = 0\n")
        if style == "slots":
            w.append("    __slots__ = ('z',)\n")
        any_body = False
        ctor = ch["ctor"]
        if ch.get("own_new"):
            any_body = True
            w.append("    def __new__(cls, *a, **k):\n        LOG.append(('new_enter',))\n"
                     "        obj = super().__new__(cls)\n        LOG.append(('new_exit',))\n        return obj\n")
        if ctor != "none":
            any_body = True
            sup = "        super().__init__()\n"
            w.append("    def __init__(self):\n        LOG.append(('ctor_enter', 'Child'))\n")
            if ctor == "first":
                w.append(sup + "        self.w = 2\n")
            elif ctor == "middle":
                w.append("        self.w = 1\n" + sup + "        self.w = 2\n")
            elif ctor == "last":
                w.append("        self.w = 2\n" + sup)
            else:
                w.append("        self.v = 1\n        self.w = 2\n")
            w.append("        LOG.append(('ctor_exit', 'Child'))\n")
        if ch["overrides"]:
            any_body = True
            w.append("    def pub(self):\n        LOG.append(('body', 'pub'))\n        return 2\n")
            w.append("    def __call__(self):\n        LOG.append(('body', '__call__'))\n        return 2\n")
        if ch.get("extends_prop"):
            any_body = True
            # the child extends the INHERITED property with a setter of its own, re-using the base's getter and deleter
            w.append("    @Root.p.setter\n    def p(self, value):\n        LOG.append(('body', 'p.set'))\n")
        if ch.get("own_setattr"):
            any_body = True
            # the child has a __setattr__ of its own which does not go through the (wrapped) one of the base
            w.append("    def __setattr__(self, name, value):\n        LOG.append(('body', '__setattr__'))\n        object.__setattr__(self, name, value)\n")
        if ch["adds"]:
            any_body = True
            w.append("    def extra(self):\n        LOG.append(('body', 'extra'))\n        return 3\n")
            w.append("    def _cprot(self):\n        LOG.append(('body', '_cprot'))\n        return 3\n")
        if not any_body:
            w.append("    pass\n")
        if ch.get("late_members"):
            # members given to the class after it has been created (as class decorators and registries do)
            w.append("def _late(self):\n    LOG.append(('body', 'late'))\n    return 4\ndef _late_get(self):\n    LOG.append(('body', 'lp.get'))\n    return 4\n"
                     "Child.late = _late\nChild.lp = property(_late_get)\n"
                     # ... and an inherited property extended after the fact: the getter is the (already wrapped) one of the base, the setter is new
                     "def _late_set(self, value):\n    LOG.append(('body', 'lq.set'))\nChild.lq = Child.p.setter(_late_set)\n")
    return "".join(w)


# operation alphabet: name -> (kind, code)   kind: call | set | pset | never
OPS = {
    "pub": ("call", lambda o, ns: o.pub(), "pub"),
    "__call__": ("call", lambda o, ns: o(), "__call__"),
    "__bool__": ("call", lambda o, ns: bool(o), "__bool__"),
    "apub": ("call", lambda o, ns: ns["RUN"](o.apub()), "apub"),
    "p.get": ("call", lambda o, ns: o.p, "p.get"),
    "p.set": ("pset", lambda o, ns: setattr(o, "p", 5), "p.set"),
    "p.del": ("call", lambda o, ns: delattr(o, "p"), "p.del"),
    "pp.get": ("call", lambda o, ns: o.pp, "pp.get"),
    "pp.set": ("pset", lambda o, ns: setattr(o, "pp", 5), "pp.set"),
    "pp.del": ("call", lambda o, ns: delattr(o, "pp"), "pp.del"),
    "del_tmp": ("call", lambda o, ns: (o.__dict__.__setitem__("tmp", 1), delattr(o, "tmp")), "__delattr__"),
    "call_priv": ("call", lambda o, ns: o.call_priv(), "call_priv"),
    "_prot": ("never", lambda o, ns: o._prot(), "_prot"),
    "__priv": ("never", lambda o, ns: o._Root__priv(), "__priv"),
    "cm": ("never", lambda o, ns: o.cm(), "cm"),
    "sm": ("never", lambda o, ns: o.sm(), "sm"),
    "repr": ("never", lambda o, ns: repr(o), "__repr__"),
    "setattr": ("set", lambda o, ns: setattr(o, "v", 7), None),
    "read": ("never", lambda o, ns: o.v, None),
    "reinit_boom": ("boom", lambda o, ns: o.__init__(True), None),
    "sd": ("call", lambda o, ns: o.sd(1), "sd"),
    "late": ("call", lambda o, ns: o.late(), "late"),
    "lp.get": ("call", lambda o, ns: o.lp, "lp.get"),
    "lq.set": ("pset", lambda o, ns: setattr(o, "lq", 5), "lq.set"),
    "extra": ("call", lambda o, ns: o.extra(), "extra"),
    "mx": ("call", lambda o, ns: o.mx(), "mx"),
    "_cprot": ("never", lambda o, ns: o._cprot(), "_cprot"),
}


def ops_for(spec):
    ops = ["pub", "__call__", "__bool__", "apub", "p.get", "p.set", "p.del", "call_priv", "_prot", "__priv", "cm", "sm", "repr", "setattr", "read", "sd", "pp.get", "pp.set", "pp.del"]
    if spec["style"] == "namedtuple":
        ops = [o for o in ops if o not in ("setattr", "__bool__", "p.set", "p.del", "pp.set", "pp.del")]
    if spec["style"] == "own_delattr":
        ops += ["del_tmp"]
    if spec["child"] and spec["child"]["adds"]:
        ops += ["extra", "_cprot"]
    if spec["child"] and spec["child"].get("late_members"):
        ops += ["late", "lp.get", "lq.set"]
    if spec["child"] and spec["child"].get("mixin"):
        ops += ["mx"]
    if spec["style"] in ("plain", "slots", "getattribute") and not spec["child"]:
        ops += ["reinit_boom"]   # a constructor call on the existing object that fails in its body
    return ops


def specs(tier):
    out = []
    inv_opts_q = [["C"], ["S"], ["A"], ["C", "S"], ["S", "C"], ["A", "C"]]
    inv_opts_t = inv_opts_q + [["C", "C"], ["C", "A"], ["S", "S"], ["S", "A"], ["A", "S"], ["A", "A"]]
    inv_opts = inv_opts_q if tier == "quick" else inv_opts_t
    for base in ("object", "DBC"):
        for style in ("plain", "slots", "dataclass", "namedtuple", "no_init", "user_new", "getattribute", "aliased", "list_base", "exc_base", "own_delattr"):
            if style == "namedtuple" and base == "DBC":
                continue
            for invs in inv_opts:
                if style == "namedtuple" and any(c != "C" for c in invs):
                    continue
                out.append({"base": base, "style": style, "invs": invs, "child": None})
    # children (DBC only)
    child_invs_q = [[], ["C"], ["S"]]
    child_invs_t = [[], ["C"], ["S"], ["A"], ["C", "S"]]
    for style in ("plain", "no_init", "dataclass") if tier == "quick" else ("plain", "no_init", "dataclass", "slots", "user_new"):
        for invs in ([["C"], ["C", "S"], ["S", "C"], ["A", "C"]] if tier == "quick" else inv_opts):
            for cinvs in (child_invs_q if tier == "quick" else child_invs_t):
                for ctor in ("none", "first", "middle", "last", "never"):
                    if style == "dataclass" and ctor != "none":
                        continue
                    if style == "no_init" and ctor not in ("none", "never"):
                        continue
                    for overrides, adds in ((False, False), (True, True)) if tier == "quick" else ((False, False), (True, False), (False, True), (True, True)):
                        out.append({"base": "DBC", "style": style, "invs": invs,
                                    "child": {"invs": cinvs, "ctor": ctor, "overrides": overrides, "adds": adds}})
                        if ctor in ("none", "first") and not overrides and style != "dataclass":
                            out.append({"base": "DBC", "style": style, "invs": invs,
                                        "child": {"invs": cinvs, "ctor": ctor, "overrides": overrides, "adds": adds, "extends_prop": True}})
                        if ctor == "none" and style == "no_init":
                            out.append({"base": "DBC", "style": style, "invs": invs,
                                        "child": {"invs": cinvs, "ctor": ctor, "overrides": overrides, "adds": adds, "dc_slots": True}})
                        if ctor in ("none", "first") and not overrides and style in ("plain", "no_init"):
                            out.append({"base": "DBC", "style": style, "invs": invs,
                                        "child": {"invs": cinvs, "ctor": ctor, "overrides": overrides, "adds": adds, "own_setattr": True}})
                        if ctor in ("none", "first") and not overrides and style in ("plain", "no_init"):
                            out.append({"base": "DBC", "style": style, "invs": invs,
                                        "child": {"invs": cinvs, "ctor": ctor, "overrides": overrides, "adds": adds, "late_members": True}})
                        if ctor in ("none", "first") and not overrides and style in ("plain", "no_init"):
                            for mixin in ("after", "before"):
                                out.append({"base": "DBC", "style": style, "invs": invs,
                                            "child": {"invs": cinvs, "ctor": ctor, "overrides": overrides, "adds": adds, "mixin": mixin}})
                        if ctor == "none" and style == "no_init":
                            # a plain (non-slots) dataclass: the constructor is generated and assigned AFTER the class has been created
                            out.append({"base": "DBC", "style": style, "invs": invs,
                                        "child": {"invs": cinvs, "ctor": ctor, "overrides": overrides, "adds": adds, "dc_plain": True}})
    for invs in ([["C"], ["C", "S"]] if tier == "quick" else inv_opts_q):
        for cinvs in (child_invs_q if tier == "quick" else child_invs_t):
            for ctor in ("first", "never"):
                for via_root in (True, False):
                    out.append({"base": "DBC", "style": "factory_new", "invs": invs,
                                "child": {"invs": cinvs, "ctor": ctor, "overrides": False, "adds": False, "via_root": via_root}})
    for invs in ([["C"], ["C", "S"]] if tier == "quick" else inv_opts_q):
        for cinvs in (child_invs_q if tier == "quick" else child_invs_t):
            for ctor in ("none", "first"):
                for own_new in (True, False):
                    out.append({"base": "DBC", "style": "new_chain", "invs": invs,
                                "child": {"invs": cinvs, "ctor": ctor, "overrides": False, "adds": False, "own_new": own_new}})
    return out


def feats(spec, op=None, seq=None):
    ch = spec["child"]
    return {"base": spec["base"], "style": spec["style"], "invs": "".join(spec["invs"]),
            "child": None if not ch else "{}|{}|{}{}{}".format("".join(ch["invs"]), ch["ctor"], "o" if ch["overrides"] else "-", "a" if ch["adds"] else "-",
                                                              ("x" if ch.get("extends_prop") else "") + ("s" if ch.get("own_setattr") else "") + ("d" if ch.get("dc_slots") else "") + ("D" if ch.get("dc_plain") else "") + ("L" if ch.get("late_members") else "") + ("r" if ch.get("via_root") else "") + ("n" if ch.get("own_new") else "") + ({"after": "m", "before": "M"}.get(ch.get("mixin"), ""))),
            "child_invs": None if not ch else "".join(ch["invs"]), "ctor": None if not ch else ch["ctor"],
            "op": op, "first_op": seq[0] if seq else None,
            "has_setattr_inv": any(c in "SA" for c in spec["invs"] + (ch["invs"] if ch else [])),
            "call_and_setattr_lists_differ": (lambda names: set(n for n in names if n[-1] in "CA") != set(n for n in names if n[-1] in "SA")
                                              and any(n[-1] in "SA" for n in names))(
                inv_names("R", spec["invs"]) + (inv_names("D", ch["invs"]) if ch else []))}


def expected_lists(spec):
    names = inv_names("R", spec["invs"]) + (inv_names("D", spec["child"]["invs"]) if spec["child"] else [])
    call = [n for n in names if n[-1] in "CA"]
    sett = [n for n in names if n[-1] in "SA"]
    return names, call, sett


def judge_construct(spec, log, exc, falsy_k, names):
    """Monitor for a construction: returns None or (symptom, detail)."""
    depth = 0
    done = False
    seen_after = []
    for ev in log:
        if ev[0] in ("ctor_enter", "new_enter"):
            if not done:
                depth += 1
        elif ev[0] in ("ctor_exit", "new_exit"):
            depth -= 1
        elif ev[0] == "inv":
            if depth > 0:
                return "invariant_during_construction", "an invariant was evaluated while a constructor of the object was on the stack"
            seen_after.append(ev[1])
    # constructor exits may be followed by enters of __init__ after __new__: an invariant between __new__ and __init__ is
    # "on an object whose construction has not finished"
    first_inv = next((i for i, ev in enumerate(log) if ev[0] == "inv"), None)
    last_ctor = max((i for i, ev in enumerate(log) if ev[0] in ("ctor_exit", "new_exit", "ctor_enter", "new_enter")), default=-1)
    if first_inv is not None and first_inv < last_ctor:
        return "invariant_before_construction_finished", "an invariant was evaluated before the outermost constructor returned"
    want = list(names)
    if falsy_k is not None and falsy_k < len(want):
        want = want[: falsy_k + 1]
        if seen_after != want:
            return "invariants_after_construction", "expected {} got {}".format(want, seen_after)
        if exc is None or type(exc).__name__ != "E_" + want[-1]:
            return "construction_violation_not_raised", "expected E_{} got {!r}".format(want[-1], exc)
        return None
    if seen_after != want:
        return "invariants_after_construction", "expected each of {} exactly once, got {}".format(want, seen_after)
    if exc is not None:
        return "construction_failed", repr(exc)
    return None


def judge_op(spec, opname, log, exc, falsy_k, call, sett):
    kind, _, bodyname = OPS[opname]
    invs = [ev[1] for ev in log if ev[0] == "inv"]
    bodies = [ev[1] for ev in log if ev[0] == "body" and ev[1] != "__getattribute__"]
    if kind == "boom":
        # the constructor raised: no invariant may be evaluated (construction has not finished) and the error is the body's
        if invs:
            return "invariant_during_construction", "{}: invariants {} evaluated although the constructor raised".format(opname, invs)
        if type(exc).__name__ != "Boom":
            return "operation_failed", "{}: expected the body's Boom, got {!r}".format(opname, exc)
        return None
    if kind == "never":
        if invs:
            return "invariant_around_exempt_member", "{}: invariants {} evaluated".format(opname, invs)
        if exc is not None:
            return "exempt_member_failed", repr(exc)
        return None
    if kind == "call":
        before = after = call
    elif kind == "set":
        before = after = sett
    else:  # property setter: an attribute assignment *and* a property accessor call
        both = [n for n in inv_names("R", spec["invs"]) + (inv_names("D", spec["child"]["invs"]) if spec["child"] else [])
                if n in call or n in sett]
        # which of the two wrappers evaluates is the library's choice only if the lists agree; otherwise every selected
        # invariant must be evaluated before and after
        before = after = both if set(call) != set(sett) and sett else (sett if sett else call)
    seq = list(before) + ["<body>"] + list(after)
    inv_positions = [i for i, s in enumerate(seq) if s != "<body>"]
    # expected event sequence given the falsy point
    want = []
    stop = None
    n_eval = 0
    for s in seq:
        if s == "<body>":
            want.append(("body", bodyname) if bodyname else ("body", None))
            continue
        want.append(("inv", s))
        if falsy_k is not None and n_eval == falsy_k:
            stop = s
            break
        n_eval += 1
    got = []
    for ev in log:
        if ev[0] == "inv":
            got.append(ev)
        elif ev[0] == "body" and ev[1] == bodyname:
            got.append(ev)
    if bodyname is None:
        want = [w for w in want if w[0] == "inv"]
    if kind == "pset" and set(call) != set(sett) and sett:
        # compare as sets per phase (order between the two wrappers is not prescribed)
        pass
    if got != want:
        phase = "before" if ("body", bodyname) not in got[: len(before) + 1] and bodyname else "around"
        return "invariant_events_" + kind, "{}: expected {} got {}".format(opname, want, got)
    if stop is not None:
        if exc is None or type(exc).__name__ != "E_" + stop:
            return "violation_not_raised", "{}: expected E_{} got {!r}".format(opname, stop, exc)
    elif exc is not None:
        return "operation_failed", "{}: {!r}".format(opname, exc)
    if opname == "call_priv" and stop is None:
        if bodies != ["call_priv", "__priv", "_prot"]:
            return "bodies", str(bodies)
    return None


def n_evals(spec, opname, call, sett):
    kind = OPS[opname][0]
    if kind in ("never", "boom"):
        return 0
    if kind == "call":
        return 2 * len(call)
    if kind == "set":
        return 2 * len(sett)
    both = [n for n in call + sett]
    return 2 * max(len(call), len(sett), len(set(both)))


def check_spec(spec, acc, depth):
    src = render(spec)
    key0 = json.dumps(spec, sort_keys=True)
    names_all, call, sett = expected_lists(spec)
    try:
        ns = core.fresh_ctx_run(core.load_source, src, "c03")
    except Exception as e:
        acc.case(("def", key0), True, 1, "def_error")
        acc.violation(core.Violation(PROP, "class_definition_failed", feats(spec), repr(e), spec={"spec": spec}, script=src))
        return
    try:
        K = ns["Child"] if spec["child"] else ns["Root"]
        if spec["style"] == "factory_new" and spec["child"].get("via_root"):
            K = ns["Root"]   # calling the base class gives an instance of the child

        def construct(falsy_k):
            ns["FALSY"]["k"] = -1 if falsy_k is None else falsy_k
            ns["CNT"]["n"] = 0
            del ns["LOG"][:]
            try:
                return K(), None
            except Exception as e:
                return None, e

        def history(seq, falsy):
            """seq: op names; falsy: per position None or k. Returns list of (log, exc) per step, incl. construction first."""
            out = []
            obj, exc = construct(None)
            out.append((list(ns["LOG"]), exc))
            if obj is None:
                return out
            for opname, fk in zip(seq, falsy):
                ns["FALSY"]["k"] = -1 if fk is None else fk
                ns["CNT"]["n"] = 0
                del ns["LOG"][:]
                exc = None
                try:
                    OPS[opname][1](obj, ns)
                except Exception as e:
                    exc = e
                out.append((list(ns["LOG"]), exc))
            return out

        # construction with every falsy point
        for fk in [None] + list(range(len(names_all))):
            def one():
                obj, exc = construct(fk)
                return list(ns["LOG"]), exc
            log, exc = core.fresh_ctx_run(one)
            acc.case((key0, "construct", fk), True, len(log), type(exc).__name__ if exc else "ok")
            bad = judge_construct(spec, log, exc, fk, names_all)
            if bad:
                acc.violation(core.Violation(PROP, bad[0], feats(spec, "construct"), bad[1] + " log={}".format(log),
                                             spec={"spec": spec, "seq": [], "falsy": [fk]}, script=src))
        if spec["child"] and spec["style"] != "factory_new":
            # Base and child share the wrappers of the members the child does not override. Use them on an instance of the
            # base class first, then judge the child histories below; afterwards judge the base instance with the base's lists.
            def warmup_and_base():
                ns["FALSY"]["k"] = -1
                ns["CNT"]["n"] = 0
                r = ns["Root"]()
                res = []
                for opname in ("pub", "p.get", "p.set", "setattr", "__call__"):
                    if opname in ("p.set", "setattr") and spec["style"] == "namedtuple":
                        continue
                    ns["CNT"]["n"] = 0
                    del ns["LOG"][:]
                    exc = None
                    try:
                        OPS[opname][1](r, ns)
                    except Exception as e:
                        exc = e
                    res.append((opname, list(ns["LOG"]), exc))
                return res
            root_names = inv_names("R", spec["invs"])
            rcall = [n for n in root_names if n[-1] in "CA"]
            rsett = [n for n in root_names if n[-1] in "SA"]
            root_spec = dict(spec, child=None)

            def judge_root(label):
                for opname, log, exc in core.fresh_ctx_run(warmup_and_base):
                    acc.case((key0, "root_instance", label, opname), True, len(log), type(exc).__name__ if exc else "ok")
                    bad = judge_op(root_spec, opname, log, exc, None, rcall, rsett)
                    if bad:
                        acc.violation(core.Violation(PROP, bad[0], dict(feats(spec, opname), on_instance_of="Root", phase=label),
                                                     "instance of the BASE class ({}): {}\n log={}".format(label, bad[1], log),
                                                     spec={"spec": spec, "seq": [opname], "falsy": [None], "root": label}, script=src))
                        return
            judge_root("before_child_instances")
        ops = ops_for(spec)
        # histories: every sequence of <= depth operations; falsy point in the last operation (every k) and,
        # for recovery, in the first operation with the following ones all-true
        seqs = []
        for d in range(1, depth + 1):
            seqs += list(itertools.product(ops, repeat=d))
        for seq in seqs:
            last = seq[-1]
            plans = [[None] * len(seq)]
            for k in range(n_evals(spec, last, call, sett)):
                plans.append([None] * (len(seq) - 1) + [k])
            if len(seq) >= 2:
                for k in range(n_evals(spec, seq[0], call, sett)):
                    plans.append([k] + [None] * (len(seq) - 1))
            for falsy in plans:
                steps = core.fresh_ctx_run(history, seq, falsy)
                nev = sum(len(s[0]) for s in steps)
                acc.case((key0, seq, tuple(falsy)), True, nev, tuple(type(s[1]).__name__ if s[1] else "ok" for s in steps))
                if steps[0][1] is not None:
                    break  # construction fails for this class; reported above
                for i, (opname, fk) in enumerate(zip(seq, falsy)):
                    log, exc = steps[i + 1]
                    bad = judge_op(spec, opname, log, exc, fk, call, sett)
                    if bad:
                        acc.violation(core.Violation(
                            PROP, bad[0], feats(spec, opname, seq),
                            "history {} falsy={} step {}: {}\n log={}".format(seq, falsy, i, bad[1], log),
                            spec={"spec": spec, "seq": list(seq), "falsy": list(falsy)}, script=src))
                        break
        if spec["child"] and spec["style"] != "factory_new":
            judge_root("after_child_instances")
        acc.sample({"spec": spec, "ops": ops}, cap=2)
    finally:
        core.unload_source(ns)


def work(args):
    acc = core.Acc()
    for spec, depth in args:
        check_spec(spec, acc, depth)
    return acc.result()


def run(tier, t0):
    depth = 2
    sp = core.rotate(specs(tier))
    tot = core.merge(core.pmap(work, [(s, depth if (tier == "thorough" or s["child"] is None) else 1) for s in sp]))
    return core.finish(
        PROP, tier, tot, t0,
        rule="class shapes (plain/__slots__/dataclass/NamedTuple/no __init__/user __new__/user __getattribute__ x object|DBC x "
             "DBC child adding invariants / overriding / adding members with its constructor calling super().__init__() "
             "first/middle/last/never/absent) x 1-2 invariants with every check_on combination in both decorator orders x "
             "operation histories (construct, then every sequence of <=2 operations from the member table: public, _protected, "
             "__private, __call__, __bool__, async, property get/set/del, class/static method, __repr__, attribute set/read) x "
             "'the k-th invariant evaluation is falsy' for every k in the last and in the first operation; a monitor derived "
             "from the statement judges every step; non-trivial = every history",
        assumptions=["slot wrappers inherited from object/tuple (__eq__, __str__, __len__ of tuple, ...) are not triggered: the statement is silent about them",
                     "invariant truth is programmed per evaluation index, independent of object state"],
        bounds={"class_programs": len(sp), "history_depth": depth},
    )


def replay(path):
    data = json.load(open(path))["spec"]
    acc = core.Acc()
    check_spec(data["spec"], acc, max(1, len(data.get("seq", []))))
    for v in acc.violations[:5]:
        print("VIOLATION property={} replay={}".format(PROP, path))
        print(" ", v.symptom, v.detail[:400])
    return 1 if acc.violations else 0
