"""C11 - checking is re-armed after every outcome: no sticky suspension, no lost error.

Fault enumerator: a call is run once fault-free to discover its boundary crossings (every entry of control into
user code: condition, truth test, capture, error factory, repr, body, invariant, constructor; for async also every
suspension), then re-run once per (crossing x fault kind).  After each faulted call probe calls run in the same
context and are compared with their pristine-state observations (differential oracle)."""
import asyncio
import contextvars
import itertools
import json

from .. import core

PROP = "C11"

SRC = '''\
import asyncio
import icontract
TRACE = []
KEPT = []
T = {}
FAULT = {"at": None, "kind": None, "count": 0, "obj": None, "armed": False}
class InjectedBase(BaseException): pass
def _make(kind):
    if kind == "exc":
        return ValueError("injected")
    if kind == "base":
        return InjectedBase("injected")
    if kind == "kbi":
        return KeyboardInterrupt("injected")
    if kind == "te":
        return TypeError("injected")
    if kind == "ae":
        return AttributeError("injected")
    if kind == "ke":
        return KeyError("injected")
    if kind == "si":
        return StopIteration("injected")
    if kind == "cancel":
        return asyncio.CancelledError("injected")
    raise ValueError(kind)
def cross(name):
    i = FAULT["count"]
    FAULT["count"] += 1
    TRACE.append(name)
    if FAULT["armed"] and FAULT["at"] == i:
        FAULT["obj"] = _make(FAULT["kind"])
        raise FAULT["obj"]
class Tick:
    def __await__(self):
        yield None
class Arg:
    def __repr__(self):
        cross("repr:Arg")
        return "Arg()"
class Truthy:
    def __init__(self, v):
        self.v = v
    def __bool__(self):
        cross("bool")
        return self.v
    def __repr__(self):
        cross("repr:Truthy")
        return "Truthy({})".format(self.v)
R = object()
def c(name, *a):
    cross("cond:" + name)
    return Truthy(T.get(name, True))
async def ac(name, *a):
    cross("cond:" + name)
    await Tick()
    cross("cond2:" + name)
    return Truthy(T.get(name, True))
def cap(x):
    cross("cap")
    return 1
async def acap(x):
    cross("cap")
    await Tick()
    cross("cap2")
    return 1
class Viol(Exception): pass
def errfac(x):
    cross("errfac")
    return Viol("from factory")

@icontract.snapshot(lambda x: cap(x), name="s")
@icontract.require(lambda x: c("p1", x))
@icontract.require(lambda x: c("p0", x))
@icontract.ensure(lambda result, x, OLD: c("q1", x), error=errfac)
@icontract.ensure(lambda result, x: c("q0", x))
def f(x):
    cross("body:f")
    return R

@icontract.snapshot(lambda x: acap(x), name="s")
@icontract.require(lambda x: ac("p1", x), error=Viol)
@icontract.require(lambda x: c("p0", x))
@icontract.ensure(lambda result, x, OLD: ac("q1", x), error=errfac)
@icontract.ensure(lambda result, x: c("q0", x))
async def af(x):
    cross("body:af")
    await Tick()
    cross("body2:af")
    return R

@icontract.invariant(lambda self: c("i1", self))
@icontract.invariant(lambda self: c("i0", self))
class K:
    def __init__(self, x):
        KEPT.append(self)
        cross("init")
        self.x = x
    @icontract.require(lambda self, x: c("mp", x))
    @icontract.ensure(lambda self, result: c("mq", self), error=errfac_m)
    def m(self, x):
        cross("body:m")
        return R
    @icontract.require(lambda self, x: c("amp", x))
    @icontract.ensure(lambda self, result: ac("amq", self), error=Viol)
    async def am(self, x):
        cross("body:am")
        await Tick()
        cross("body2:am")
        return R
    def __repr__(self):
        cross("repr:K")
        return "K()"

@icontract.invariant(lambda self: c("s0", self), check_on=icontract.InvariantCheckEvent.ALL)
class KS:
    def __init__(self):
        self.v = 1
    @icontract.require(lambda self, x: c("dp", x), error=errfac_m)
    def _drain(self, x):
        # protected: not wrapped by the invariant checker, but it carries its own contract with an error factory
        cross("body:_drain")
        return R
    def __repr__(self):
        cross("repr:KS")
        return "KS()"

# ---- in-body differential: what a probe observes inside a method body must not change because another checked
# ---- call was made (and ended) in between
BD = {}
CACHE = {}
def _trace_of(fn):
    n = len(TRACE)
    try:
        fn()
        out = "ret"
    except BaseException as e:
        out = type(e).__name__
    return (tuple(TRACE[n:]), out)
@icontract.invariant(lambda self: c("fw", self))
class FW:
    # flyweight without __init__: __new__ returns the existing instance for a known key
    def __new__(cls, key):
        if key in CACHE:
            return CACHE[key]
        o = super().__new__(cls)
        o.key = key
        CACHE[key] = o
        return o
    def pub(self):
        cross("body:FW.pub")
        return R
    def outer(self, action):
        cross("body:FW.outer")
        BD["before"] = _trace_of(self.pub)
        ACTIONS[action](self)
        BD["after"] = _trace_of(self.pub)
        return R
def _viol_caught(self):
    T["p0"] = False
    try:
        f(Arg())
    except BaseException:
        pass
    T.pop("p0", None)
ACTIONS = {
    "lookup_self": lambda self: FW(self.key),
    "other_instance": lambda self: FW("other").pub(),
    "function": lambda self: f(Arg()),
    "construct_K": lambda self: K(Arg()),
    "violation_caught": _viol_caught,
    "nothing": lambda self: None,
}

def guard(x):
    # user code that makes a checked call itself and survives whatever it raises
    cross("guard")
    try:
        f(x)
    except BaseException:
        pass
    return True
@icontract.require(lambda x: guard(x))
@icontract.ensure(lambda result: c("nq", result))
def nest(x):
    cross("body:nest")
    return R

# ---- calls that end with the library's OWN error (no injected fault): a condition asking for a name the call does not
# ---- provide, an error factory returning a non-exception, a parameter named ``result`` on a function with postconditions
@icontract.require(lambda x, zz: c("zp", x))
@icontract.require(lambda x: c("zp0", x))
def fz(x):
    cross("body:fz")
    return R
@icontract.require(lambda x, zz: c("zp", x))
@icontract.require(lambda x: c("zp0", x))
async def afz(x):
    cross("body:afz")
    return R
@icontract.require(lambda x: c("bp", x), error=lambda x: 42)
@icontract.ensure(lambda result: c("bq", result), error=lambda result: 42)
def fbad(x):
    cross("body:fbad")
    return R
@icontract.require(lambda x: c("bp", x), error=lambda x: 42)
@icontract.ensure(lambda result: c("bq", result), error=lambda result: 42)
async def afbad(x):
    cross("body:afbad")
    return R
@icontract.ensure(lambda x: c("rq", x))
def fres(x, result=None):
    cross("body:fres")
    return R

class WB(icontract.DBC):
    @icontract.require(lambda self, x: c("wb", x))
    def w(self, x):
        cross("body:WB.w")
        return R
    @icontract.require(lambda self, x: c("awb", x))
    async def aw(self, x):
        cross("body:WB.aw")
        return R
class WC(WB):
    # a second ("require else") group of preconditions
    @icontract.require(lambda self, x: c("wc", x))
    def w(self, x):
        cross("body:w")
        return R
    @icontract.require(lambda self, x: ac("awc", x), error=Viol)
    async def aw(self, x):
        cross("body:aw")
        await Tick()
        cross("body2:aw")
        return R
'''
SRC = SRC.replace("@icontract.invariant(lambda self: c(\"i1\", self))", "def errfac_m(self):\n    cross(\"errfac\")\n    return Viol(\"from factory\")\n\n@icontract.invariant(lambda self: c(\"i1\", self))")

# the calls that can be faulted / probed: name -> (is_async, conditions whose truth matters)
CALLS = {
    "f": (False, ["p0", "p1", "q0", "q1"]),
    "af": (True, ["p0", "p1", "q0", "q1"]),
    "K": (False, ["i0", "i1"]),
    "m": (False, ["i0", "i1", "mp", "mq"]),
    "am": (True, ["i0", "i1", "amp", "amq"]),
    "set": (False, ["s0"]),
    "drain": (False, ["dp"]),
    "nest": (False, ["p0", "q1", "nq"]),
    "w": (False, ["wb", "wc"]),
    "aw": (True, ["awb", "awc"]),
}
KINDS = ["exc", "base", "kbi", "te", "ae", "ke"]   # ValueError, BaseException subclass, KeyboardInterrupt, TypeError, AttributeError, KeyError


class Driver:
    def __init__(self):
        self.ns = core.load_source(SRC, "c11")
        self.ns["T"].clear()
        self.obj = core.fresh_ctx_run(self.ns["K"], self.ns["Arg"]())
        self.wc = core.fresh_ctx_run(self.ns["WC"])
        self.ks = core.fresh_ctx_run(self.ns["KS"])

    def invoke(self, call, obj):
        ns = self.ns
        x = ns["Arg"]()
        if call == "f":
            return ns["f"](x)
        if call == "af":
            return ns["af"](x)
        if call == "K":
            return ns["K"](x)
        if call == "m":
            return obj.m(x)
        if call == "am":
            return obj.am(x)
        if call == "set":
            self.ks.v = x
            return self.ns["R"]
        if call == "drain":
            return self.ks._drain(x)
        if call == "nest":
            return self.ns["nest"](x)
        if call == "w":
            return self.wc.w(x)
        if call == "aw":
            return self.wc.aw(x)
        raise ValueError(call)

    def run(self, call, obj, falsy, fault=None, susp_fault=None):
        """Execute one call. fault = (crossing index, kind) raises inside user code; susp_fault = (suspension index,
        action) with action in throw_exc/throw_cancel/close acts on a hand-driven coroutine. Returns (trace, outcome)."""
        ns = self.ns
        ns["T"].clear()
        if falsy:
            ns["T"][falsy] = False
        del ns["TRACE"][:]
        F = ns["FAULT"]
        F.update({"at": fault[0] if fault else None, "kind": fault[1] if fault else None, "count": 0, "obj": None, "armed": fault is not None})
        injected = None
        try:
            r = self.invoke(call, obj)
            if CALLS[call][0]:
                coro = r
                n = 0
                try:
                    while True:
                        if susp_fault is not None and n == susp_fault[0] + 1:
                            act = susp_fault[1]
                            if act == "close":
                                coro.close()
                                injected = "closed"
                                raise GeneratorExit()
                            if act == "close_elsewhere":
                                # the suspended call is closed from another context (as happens when a suspended coroutine
                                # is finalized by the garbage collector, in whatever context that runs)
                                contextvars.Context().run(coro.close)
                                injected = "closed"
                                raise GeneratorExit()
                            injected = ValueError("thrown") if act == "throw_exc" else asyncio.CancelledError("thrown")
                            coro.throw(injected)
                        else:
                            coro.send(None)
                        n += 1
                except StopIteration as stop:
                    r = stop.value
            outcome = ("ret", r is ns["R"] or call == "K")
        except BaseException as exc:
            outcome = ("exc", exc)
        finally:
            F["armed"] = False
        return list(ns["TRACE"]), outcome, (F["obj"] if fault else injected)

    def n_suspensions(self, call, obj, falsy):
        """count suspensions of the fault-free run"""
        ns = self.ns
        ns["T"].clear()
        if falsy:
            ns["T"][falsy] = False
        ns["FAULT"]["armed"] = False
        del ns["TRACE"][:]
        n = 0
        try:
            coro = self.invoke(call, obj)
            while True:
                coro.send(None)
                n += 1
        except StopIteration:
            pass
        except BaseException:
            pass
        return n


def summarize(outcome):
    if outcome[0] == "ret":
        return ("ret", outcome[1])
    e = outcome[1]
    return ("exc", type(e).__name__)


def probes(drv, obj):
    """All probe observations in the current context: every call, all-true and each condition falsy."""
    out = []
    for call, (is_async, conds) in CALLS.items():
        for falsy in [None] + conds:
            trace, outcome, _ = drv.run(call, obj, falsy)
            out.append((call, falsy, tuple(trace), summarize(outcome)))
    return out


def chain_has(exc, injected):
    seen = set()
    e = exc
    stack = [exc]
    while stack:
        e = stack.pop()
        if e is None or id(e) in seen:
            continue
        seen.add(id(e))
        if e is injected:
            return True
        stack.append(e.__cause__)
        stack.append(e.__context__)
    return False


def scenarios(tier):
    out = []
    for call, (is_async, conds) in CALLS.items():
        for falsy in [None] + conds:
            out.append((call, falsy))
    return out


def check_scenario(drv, pristine, scen, acc, second=None):
    call, falsy = scen
    ns = drv.ns

    def fresh_obj():
        ns["T"].clear()
        ns["FAULT"]["armed"] = False
        return core.fresh_ctx_run(ns["K"], ns["Arg"]())

    # fault-free run: discover the crossings
    def discover():
        obj = fresh_obj()
        t, o, _ = drv.run(call, obj, falsy)
        nsusp = drv.n_suspensions(call, obj, falsy) if CALLS[call][0] else 0
        return t, o, nsusp
    base_trace, base_outcome, nsusp = core.fresh_ctx_run(discover)
    # (in the sequences of two faulted calls the first call is faulted with three kinds only: the other Exception subclasses
    #  take the very same paths through the library unless a handler names them, which the single-fault enumeration covers)
    kinds = KINDS if second is None else ["exc", "base", "te"]
    if second is None and not CALLS[call][0]:
        # StopIteration raised in user code of a SYNC call (e.g. next() on an exhausted iterator inside a condition) is an ordinary
        # exception there; inside a coroutine CPython itself turns it into a RuntimeError, which is not the library's doing
        kinds = kinds + ["si"]
    plans = [("cross", i, kind) for i in range(len(base_trace)) for kind in kinds]
    if CALLS[call][0]:
        plans += [("cross", i, "cancel") for i in range(len(base_trace))]
        plans += [("susp", k, act) for k in range(nsusp) for act in ("throw_exc", "throw_cancel", "close", "close_elsewhere")]
    for plan in plans:
        def one():
            obj = fresh_obj()
            if plan[0] == "cross":
                trace, outcome, injected = drv.run(call, obj, falsy, fault=(plan[1], plan[2]))
            else:
                trace, outcome, injected = drv.run(call, obj, falsy, susp_fault=(plan[1], plan[2]))
            extra = None
            if second is not None:
                # a second faulted call (BaseException at its first crossing ... enumerated by the caller) before the probes
                t2, o2, inj2 = drv.run(second[0], obj, second[1], fault=(second[2], second[3]))
                extra = (t2, summarize(o2))
            kept_obs = None
            if call == "K" and ns["KEPT"]:
                # the instance whose constructor was faulted is still around: it must be checked like any other
                kept = ns["KEPT"][-1]
                kept_obs = [p for p in probes(drv, kept) if p[0] in ("m", "am")]
            del ns["KEPT"][:]
            return trace, outcome, injected, probes(drv, obj), extra, kept_obs
        trace, outcome, injected, obs, extra, kept_obs = core.fresh_ctx_run(one)
        where = base_trace[plan[1]] if plan[0] == "cross" else "suspension#{}".format(plan[1])
        feats = {"call": call, "falsy": falsy, "plan": plan[0], "kind": plan[2], "at": where.split(":")[0], "where": where,
                 "second": None if second is None else "{}:{}@{}:{}".format(*second)}
        acc.case((call, falsy, plan, second), True, len(trace) + sum(len(o[2]) for o in obs), summarize(outcome))

        def viol(sym, detail):
            acc.violation(core.Violation(
                PROP, sym, feats, detail, spec={"call": call, "falsy": falsy, "plan": list(plan), "second": second},
                script=SRC + "\n# faulted call: {}  falsy condition: {}  fault plan: {}  (crossing {!r}); second: {}\n".format(call, falsy, plan, where, second)))

        # (2) the fault must surface
        fired = injected is not None
        if fired:
            inside_guard = False
            if call == "nest" and plan[0] == "cross" and "guard" in base_trace and "body:nest" in base_trace:
                inside_guard = base_trace.index("guard") < plan[1] < base_trace.index("body:nest")
            if plan[2] in ("close", "close_elsewhere"):
                pass  # closing returns nothing to the caller; only the re-arming is judged
            elif inside_guard:
                # the user's own guard (inside a condition) catches whatever its inner checked call raises:
                # the outer call must end exactly as without the fault
                if summarize(outcome) != summarize(base_outcome):
                    viol("fault_changed_outer_outcome", "fault {} at {!r} inside the guarded inner call: outer outcome {} instead of {}".format(
                        plan[2], where, summarize(outcome), summarize(base_outcome)))
                    continue
            elif outcome[0] != "exc":
                # an Exception raised by a value __repr__ may be absorbed by reprlib; the call must then end as without the fault
                # (a normal return is only possible when the message was built for a precondition group that was later overruled)
                if not (where.startswith("repr") and plan[2] in ("exc", "te", "ae", "ke", "si") and summarize(outcome) == summarize(base_outcome)):
                    viol("fault_swallowed", "fault {} at {!r}: the call returned normally".format(plan[2], where))
                    continue
            elif not chain_has(outcome[1], injected):
                absorbed_ok = where.startswith("repr") and plan[2] in ("exc", "te", "ae", "ke", "si") and type(outcome[1]).__name__ in ("ViolationError", "Viol")
                if not absorbed_ok:
                    viol("fault_replaced", "fault {} at {!r}: surfaced {!r} which neither is nor chains the injected exception".format(
                        plan[2], where, outcome[1]))
                    continue
        # (1b) the instance of a faulted constructor is re-armed as well
        if kept_obs is not None:
            want_kept = [p for p in pristine if p[0] in ("m", "am")]
            if kept_obs != want_kept:
                a, b = next((a, b) for a, b in zip(want_kept, kept_obs) if a != b)
                viol("not_rearmed", "after fault {} at {!r} in the constructor: the instance itself - probe {}(falsy={}) expected {} {} got {} {}".format(
                    plan[2], where, a[0], a[1], list(a[2]), a[3], list(b[2]), b[3]))
                continue
        # (1) probes equal the pristine observations
        if obs != pristine:
            for a, b in zip(pristine, obs):
                if a != b:
                    viol("not_rearmed", "after fault {} at {!r} in {}(falsy={}): probe {}(falsy={}) pristine trace/outcome {} {} but now {} {}".format(
                        plan[2], where, call, falsy, a[0], a[1], list(a[2]), a[3], list(b[2]), b[3]))
                    break


# (name, is_async, conditions to set falsy, call)
LIB_ENDINGS = [
    ("f(x, _ARGS=1)", False, None, lambda ns, o, x: ns["f"](x, _ARGS=1)),
    ("f(x, _KWARGS=1)", False, None, lambda ns, o, x: ns["f"](x, _KWARGS=1)),
    ("af(x, _ARGS=1)", True, None, lambda ns, o, x: ns["af"](x, _ARGS=1)),
    ("m(x, _KWARGS=1)", False, None, lambda ns, o, x: o.m(x, _KWARGS=1)),
    ("am(x, _ARGS=1)", True, None, lambda ns, o, x: o.am(x, _ARGS=1)),
    ("nest(x, _ARGS=1)", False, None, lambda ns, o, x: ns["nest"](x, _ARGS=1)),
    ("f(x, result=1)", False, None, lambda ns, o, x: ns["f"](x, result=1)),
    ("f(x, OLD=1)", False, None, lambda ns, o, x: ns["f"](x, OLD=1)),
    ("af(x, result=1)", True, None, lambda ns, o, x: ns["af"](x, result=1)),
    ("af(x, OLD=1)", True, None, lambda ns, o, x: ns["af"](x, OLD=1)),
    ("m(x, result=1)", False, None, lambda ns, o, x: o.m(x, result=1)),
    ("am(x, OLD=1)", True, None, lambda ns, o, x: o.am(x, OLD=1)),
    ("fz(x)", False, None, lambda ns, o, x: ns["fz"](x)),
    ("fz(x) first condition falsy", False, "zp0", lambda ns, o, x: ns["fz"](x)),
    ("afz(x)", True, None, lambda ns, o, x: ns["afz"](x)),
    ("fbad(x) pre falsy", False, "bp", lambda ns, o, x: ns["fbad"](x)),
    ("fbad(x) post falsy", False, "bq", lambda ns, o, x: ns["fbad"](x)),
    ("afbad(x) pre falsy", True, "bp", lambda ns, o, x: ns["afbad"](x)),
    ("afbad(x) post falsy", True, "bq", lambda ns, o, x: ns["afbad"](x)),
    ("fres(x)", False, None, lambda ns, o, x: ns["fres"](x)),
    ("fres(x) post falsy", False, "rq", lambda ns, o, x: ns["fres"](x)),
]
LIB_EXPECT = {"fz(x) first condition falsy": "ViolationError"}


def check_library_endings(drv, pristine, acc):
    """No injected fault: the call ends with the library's own documented error. Twice in a row it must be observed
    identically (the second call is checked like the first), and the probes of every other callable must be pristine."""
    ns = drv.ns
    for name, is_async, falsy, thunk in LIB_ENDINGS:
        def once(obj):
            ns["T"].clear()
            if falsy:
                ns["T"][falsy] = False
            del ns["TRACE"][:]
            ns["FAULT"]["armed"] = False
            try:
                r = thunk(ns, obj, ns["Arg"]())
                if is_async:
                    r = core.run_coro(r)
                out = ("ret", None)
            except BaseException as e:
                out = ("exc", type(e).__name__)
            return tuple(ns["TRACE"]), out

        def go():
            ns["T"].clear()
            obj = core.fresh_ctx_run(ns["K"], ns["Arg"]())
            first = once(obj)
            second = once(obj)
            return first, second, probes(drv, obj)
        first, second, obs = core.fresh_ctx_run(go)
        acc.case(("library_ending", name), True, len(first[0]) + len(second[0]), first[1])
        feats = {"call": name, "falsy": falsy, "kind": "library_error"}

        def viol(sym, detail):
            acc.violation(core.Violation(PROP, sym, feats, detail, spec={"library_ending": name}, script=SRC))
        want = LIB_EXPECT.get(name, "TypeError")
        if first[1] != ("exc", want):
            viol("documented_error_not_raised", "{}: expected the library's {} but the call ended with {} (trace {})".format(name, want, first[1], list(first[0])))
            continue
        if second != first:
            viol("not_rearmed", "{} ended with the library's own {}; the same call again in the same context: first trace/outcome {} {} "
                 "but then {} {}".format(name, want, list(first[0]), first[1], list(second[0]), second[1]))
            continue
        if obs != pristine:
            a, b = next((a, b) for a, b in zip(pristine, obs) if a != b)
            viol("not_rearmed", "after {} ended with the library's own {}: probe {}(falsy={}) pristine trace/outcome {} {} but now {} {}".format(
                name, want, a[0], a[1], list(a[2]), a[3], list(b[2]), b[3]))
    acc.sample({"library_endings": [e[0] for e in LIB_ENDINGS]}, cap=1)


def pristine_probes(drv):
    def go():
        drv.ns["T"].clear()
        drv.ns["FAULT"]["armed"] = False
        return probes(drv, core.fresh_ctx_run(drv.ns["K"], drv.ns["Arg"]()))
    return core.fresh_ctx_run(go)


def check_body_differential(acc):
    ns = core.load_source(SRC, "c11bd")
    try:
        for action in sorted(ns["ACTIONS"]):
            def go():
                ns["T"].clear()
                ns["CACHE"].clear()
                ns["FAULT"]["armed"] = False
                del ns["TRACE"][:]
                w = ns["FW"]("w")
                ns["BD"].clear()
                w.outer(action)
                return dict(ns["BD"])
            bd = core.fresh_ctx_run(go)
            acc.case(("body_differential", action), True, len(bd.get("before", ((),))[0]) + len(bd.get("after", ((),))[0]), bd.get("after", (None, None))[1])
            if bd.get("before") != bd.get("after"):
                acc.violation(core.Violation(
                    PROP, "nested_call_changed_suspension_state", {"call": "FW.outer", "action": action},
                    "inside the body of a public method, the probe self.pub() observed {} before and {} after the nested checked call "
                    "'{}' (which ended normally): the suspension state was not restored".format(bd.get("before"), bd.get("after"), action),
                    spec={"body_differential": action}, script=SRC))
        acc.sample({"body_differential": sorted(ns["ACTIONS"])}, cap=1)
    finally:
        core.unload_source(ns)


# ---------------------------------------------------------------------------------------------
# stack exhaustion: a checked call made with every small amount of stack headroom left; wherever the RecursionError strikes
# (inside user code or inside the library itself), the next call must be checked as in a fresh process

HEADROOMS = list(range(1, 90))


def check_stack_headroom(drv, pristine, acc, only=None):
    import sys
    ns = drv.ns

    def at_depth(fn, headroom):
        # run fn with exactly ``headroom`` frames left
        def depth():
            f = sys._getframe()
            n = 0
            while f is not None:
                n += 1
                f = f.f_back
            return n
        old = sys.getrecursionlimit()
        sys.setrecursionlimit(max(depth() + headroom, 20))
        try:
            return fn()
        finally:
            sys.setrecursionlimit(old)

    def run_resumed_deeper(call, obj, falsy, h):
        # an async call whose first step is taken with plenty of stack and whose later steps are taken with ``h`` frames left
        # (a coroutine resumed by a driver which sits deeper in the stack than the one which started it)
        ns["T"].clear()
        if falsy:
            ns["T"][falsy] = False
        del ns["TRACE"][:]
        ns["FAULT"].update({"at": None, "kind": None, "count": 0, "obj": None, "armed": False})
        coro = drv.invoke(call, obj)
        try:
            coro.send(None)
        except StopIteration as stop:
            return ("ret", stop.value is ns["R"])
        except BaseException as exc:  # noqa
            return ("exc", exc)

        def rest():
            try:
                while True:
                    coro.send(None)
            except StopIteration as stop:
                return ("ret", stop.value is ns["R"])
        try:
            return at_depth(rest, h)
        except BaseException as exc:  # noqa
            return ("exc", exc)

    for call, (is_async, conds) in CALLS.items():
        if only is not None and call != only:
            continue
        for falsy, deeper in [(f, d) for f in [None] + conds[:1] for d in ((False, True) if is_async else (False,))]:
            outcomes = set()
            for h in HEADROOMS:
                def one():
                    ns["T"].clear()
                    ns["FAULT"]["armed"] = False
                    obj = ns["K"](ns["Arg"]())
                    try:
                        if deeper:
                            outcome = summarize(run_resumed_deeper(call, obj, falsy, h))
                        else:
                            res = at_depth(lambda: drv.run(call, obj, falsy), h)
                            outcome = summarize(res[1])
                    except RecursionError:
                        outcome = ("exc", "RecursionError")
                    ns["FAULT"]["armed"] = False
                    return outcome, probes(drv, obj)
                outcome, obs = core.fresh_ctx_run(one)
                outcomes.add(outcome)
                acc.case(("headroom", call, falsy, h, deeper), True, sum(len(o[2]) for o in obs), outcome)
                if obs != pristine:
                    a, b = next((a, b) for a, b in zip(pristine, obs) if a != b)
                    acc.violation(core.Violation(
                        PROP, "not_rearmed", {"call": call, "falsy": falsy, "plan": "headroom", "kind": "RecursionError", "headroom": h, "resumed_deeper": deeper},
                        ("after {}(falsy={}) was {} with {} stack frames left (it ended with {}): probe {}(falsy={}) pristine trace/outcome "
                         "{} {} but now {} {}").format(call, falsy, "started with plenty of stack and resumed" if deeper else "called", h, outcome,
                                                      a[0], a[1], list(a[2]), a[3], list(b[2]), b[3]),
                        spec={"headroom": [call, falsy, h]}, script=SRC))
                    break
            else:
                if not deeper and (("exc", "RecursionError") not in outcomes or len(outcomes) < 2):
                    raise RuntimeError("harness: the headroom sweep for {} does not span both the exhausted and the sufficient stack: {}".format(call, outcomes))
    acc.sample({"stack_headroom": [HEADROOMS[0], HEADROOMS[-1]], "calls": sorted(CALLS)}, cap=1)


# ---------------------------------------------------------------------------------------------
# a class checked through __new__ (no constructor) whose construction is faulted in the invariant phase while the instance
# lives on (the flyweight keeps it in its cache): the instance must be checked like any other afterwards

def check_flyweight(drv, acc):
    ns = drv.ns

    def observe(plan):
        def go():
            ns["T"].clear()
            ns["CACHE"].clear()
            F = ns["FAULT"]
            F.update({"at": None, "kind": None, "count": 0, "obj": None, "armed": False})
            del ns["TRACE"][:]
            if plan is not None:
                if plan[0] == "falsy":
                    ns["T"]["fw"] = False
                else:
                    F.update({"at": plan[0], "kind": plan[1], "armed": True})
            try:
                ns["FW"]("k")
                first = "ret"
            except BaseException as e:  # noqa
                first = type(e).__name__
            F["armed"] = False
            ns["T"].clear()
            construction = tuple(ns["TRACE"])
            o = ns["CACHE"].get("k")
            if o is None:
                return first, construction, None
            obs = [ns["_trace_of"](o.pub), ns["_trace_of"](lambda: ns["FW"]("k")), ns["_trace_of"](o.pub)]
            ns["T"]["fw"] = False
            obs.append(ns["_trace_of"](o.pub))
            ns["T"].clear()
            return first, construction, obs
        return core.fresh_ctx_run(go)
    first0, construction0, pristine = observe(None)
    if first0 != "ret" or pristine is None or len(construction0) < 2:
        raise RuntimeError("harness: the fault-free flyweight construction is not as expected: {} {}".format(first0, construction0))
    plans = [(i, kind) for i in range(len(construction0)) for kind in KINDS] + [("falsy", None)]
    for plan in plans:
        first, construction, obs = observe(plan)
        acc.case(("flyweight", plan), True, len(construction) + sum(len(o[0]) for o in (obs or [])), first)
        if first == "ret":
            acc.violation(core.Violation(PROP, "fault_lost", {"call": "FW", "plan": "flyweight", "kind": plan[1] or "falsy", "at": plan[0]},
                                         "constructing FW('k') with the fault {} ended normally".format(plan), spec={"flyweight": list(plan)}, script=SRC))
        elif obs is not None and obs != pristine:
            a, b = next((a, b) for a, b in zip(pristine, obs) if a != b)
            acc.violation(core.Violation(
                PROP, "not_rearmed", {"call": "FW", "plan": "flyweight", "kind": plan[1] or "falsy", "at": plan[0]},
                "after the construction FW('k') was faulted with {} in its invariant phase (outcome {}), the cached instance is observed "
                "{} where an instance constructed without a fault gives {}".format(plan, first, b, a), spec={"flyweight": list(plan)}, script=SRC))
    acc.sample({"flyweight_plans": len(plans)}, cap=1)


# ---------------------------------------------------------------------------------------------
# bodies which break the state and THEN raise; constructors / restorers which fail in a class with a finalizer

STATE_SRC = """\
import gc
import icontract
LOG = []
class Underflow(Exception): pass
class BaseBoom(BaseException): pass
def RUN(c):
    try:
        while True: c.send(None)
    except StopIteration as s:
        return s.value
def inv(self):
    LOG.append("inv")
    return self.n >= 0
@icontract.invariant(inv)
class St:
    def __init__(self, n=0, boom=None):
        self.n = n
        if boom is not None:
            raise boom
    def pop(self, exc):
        self.n = -1
        raise exc
    def drop(self, exc):
        del self.n
        raise exc
    async def apop(self, exc):
        self.n = -1
        raise exc
    @property
    def p(self):
        self.n = -1
        raise self.exc
    @p.setter
    def p(self, exc):
        self.n = -1
        raise exc
    def __setstate__(self, state):
        self.__dict__.update(state)
        if "boom" in state:
            raise state["boom"]
    def ok(self):
        return self.n
class StD(St):
    # ... with a finalizer (which is a public-looking special method: it runs on half-built objects as well)
    def __del__(self):
        pass
"""


def check_state_breaking(acc):
    import gc
    import icontract
    ns = core.load_source(STATE_SRC, "c11st")
    try:
        for cls_name in ("St", "StD"):
            cls = ns[cls_name]
            for exc_name in ("Underflow", "BaseBoom"):
                # (1) the body breaks the invariant (or makes it unevaluable) and raises: that very exception reaches the caller
                for op in ("pop", "drop", "apop", "p.get", "p.set"):
                    def go():
                        o = cls(1)
                        exc = ns[exc_name]("from the body")
                        o.__dict__["exc"] = exc
                        try:
                            if op == "pop":
                                o.pop(exc)
                            elif op == "drop":
                                o.drop(exc)
                            elif op == "apop":
                                ns["RUN"](o.apop(exc))
                            elif op == "p.get":
                                o.p
                            else:
                                o.p = exc
                            got = None
                        except BaseException as e:  # noqa
                            got = e
                        # afterwards a fresh object is checked as ever
                        try:
                            cls(-1)
                            later = "ret"
                        except icontract.ViolationError:
                            later = "ViolationError"
                        except BaseException as e:  # noqa
                            later = type(e).__name__
                        return got is exc, repr(got), later
                    same, got, later = core.fresh_ctx_run(go)
                    acc.case(("state_breaking", cls_name, exc_name, op), True, 3, (same, later))
                    feats = {"call": cls_name + "." + op, "plan": "state_breaking", "kind": exc_name, "at": op}
                    if not same:
                        acc.violation(core.Violation(PROP, "fault_replaced", feats, "{}.{}: the body set the object into a state violating the invariant and raised {}; "
                                                     "the caller got {} instead of that very exception".format(cls_name, op, exc_name, got),
                                                     spec={"state_breaking": [cls_name, exc_name, op]}, script=STATE_SRC))
                    elif later != "ViolationError":
                        acc.violation(core.Violation(PROP, "not_rearmed", feats, "after {}.{} raised {}, constructing {}(-1) gave {} instead of ViolationError".format(
                            cls_name, op, exc_name, cls_name, later), spec={"state_breaking": [cls_name, exc_name, op]}, script=STATE_SRC))
                # (2) a constructor / restorer whose body fails: later objects (also at the re-used address) and the same object are checked
                for how in ("init", "setstate"):
                    def go2():
                        verdicts = []
                        keep = cls(1)
                        for rnd in range(6):
                            exc = ns[exc_name]("from the constructor")
                            try:
                                if how == "init":
                                    cls(1, boom=exc)
                                else:
                                    keep.__setstate__({"n": 1, "boom": exc})
                            except BaseException as e:  # noqa
                                if e is not exc:
                                    verdicts.append(("other", repr(e)))
                            del exc
                            gc.collect()
                            # fresh objects (one of them is likely to re-use the freed address) and the kept one
                            fresh = []
                            for k in range(3):
                                try:
                                    fresh.append(cls(-1))
                                    verdicts.append(("fresh_unchecked", rnd, k))
                                except icontract.ViolationError:
                                    pass
                            keep.n = -1 if False else keep.n
                            keep.__dict__["n"] = -1
                            try:
                                keep.ok()
                                verdicts.append(("kept_unchecked", rnd))
                            except icontract.ViolationError:
                                pass
                            keep.__dict__["n"] = 1
                        return verdicts
                    verdicts = core.fresh_ctx_run(go2)
                    acc.case(("failed_ctor", cls_name, exc_name, how), True, 6, len(verdicts))
                    if verdicts:
                        acc.violation(core.Violation(PROP, "not_rearmed", {"call": cls_name + "." + how, "plan": "failed_constructor", "kind": exc_name, "at": how},
                                                     "after {} of {} failed in its body with {}: {}".format(how, cls_name, exc_name, verdicts[:4]),
                                                     spec={"state_breaking": [cls_name, exc_name, how]}, script=STATE_SRC))
        acc.sample({"state_breaking": True}, cap=1)
    finally:
        core.unload_source(ns)


def work(chunk):
    acc = core.Acc()
    if any(item == "state_breaking" for item in chunk):
        check_state_breaking(acc)
        chunk = [item for item in chunk if item != "state_breaking"]
    if any(item == "body_differential" for item in chunk):
        check_body_differential(acc)
        chunk = [item for item in chunk if item != "body_differential"]
    drv = Driver()
    pristine = pristine_probes(drv)
    # determinism self-check: the pristine observations must be reproducible
    again = pristine_probes(drv)
    if again != pristine:
        raise RuntimeError("harness nondeterminism: pristine probe observations differ between two runs")
    if any(item == "library_endings" for item in chunk):
        check_library_endings(drv, pristine, acc)
        chunk = [item for item in chunk if item != "library_endings"]
    if any(item == "flyweight" for item in chunk):
        check_flyweight(drv, acc)
        chunk = [item for item in chunk if item != "flyweight"]
    for item in chunk:
        if isinstance(item, tuple) and item[0] == "stack_headroom":
            check_stack_headroom(drv, pristine, acc, only=item[1])
    chunk = [item for item in chunk if not (isinstance(item, tuple) and item[0] == "stack_headroom")]
    for item in chunk:
        if not isinstance(item[0], tuple):
            check_scenario(drv, pristine, item, acc)
        else:
            check_scenario(drv, pristine, item[0], acc, second=item[1])
    if chunk:
        acc.sample({"scenario": chunk[0], "probe_count": len(pristine)})
    return acc.result()


def run(tier, t0):
    sc = scenarios(tier)
    items = list(sc) + ["body_differential", "library_endings", "flyweight", "state_breaking"] + [("stack_headroom", call) for call in sorted(CALLS)]
    if tier == "thorough":
        # sequences of two faulted calls: the second one faulted at each of its first 6 crossings
        for s in sc:
            for s2 in sc:
                for idx in range(0, 6):
                    items.append((s, (s2[0], s2[1], idx, "base" if idx % 2 == 0 else "exc")))
    tot = core.merge(core.pmap(work, core.rotate(items)))
    return core.finish(
        PROP, tier, tot, t0,
        rule="faulted call in (f, async af, K(), m, async am) x which condition is falsy (none or each one: reaches message building, "
             "error factories, value reprs) x EVERY boundary crossing of the fault-free run (condition, truth test, capture, "
             "error factory, __repr__, body, invariant, constructor, both halves of awaiting conditions/bodies) x fault kind "
             "(ValueError, TypeError, AttributeError, KeyError, BaseException subclass, KeyboardInterrupt; async: CancelledError raised inside, and throw/cancel/close "
             "at every suspension of a hand-driven coroutine, the closing also from ANOTHER context){}; every call also with each of 1..89 stack "
             "frames of headroom left (RecursionError wherever it strikes, also inside the library; async calls also started with plenty of stack and resumed with 1..89 frames left); construction of a flyweight class checked "
             "through __new__ faulted at every crossing of its invariant phase while its cache keeps the instance; bodies (method, async method, property "
             "getter / setter) which break or delete the state the invariant reads and THEN raise (Exception / BaseException): that very object surfaces; constructors and __setstate__ "
             "failing in their body, in a class with and without __del__, 6 rounds with fresh objects at re-used addresses; after each: probe calls of every callable (all true + each "
             "condition falsy) in the same context, compared with the pristine-state observations; the surfaced exception must be "
             "or chain the injected one; non-trivial = every case".format(
                 "; plus all pairs (first faulted call ; second call faulted at one of its first 6 crossings, BaseException and Exception alternating) before the probes" if tier == "thorough" else ""),
        assumptions=["faults are injected at entries into user code and at suspension points, not between arbitrary bytecodes",
                     "a failing value __repr__ raising an Exception may be absorbed by reprlib (then the violation must still be reported)"],
        bounds={"scenarios": len(sc), "items": len(items), "fault_sequence_length": 1 if tier == "quick" else 2},
        extra_cov={"level_detail": "fault_enumeration over boundary crossings of the real code"},
    )


def replay(path):
    data = json.load(open(path))["spec"]
    acc = core.Acc()
    drv = Driver()
    pristine = pristine_probes(drv)
    if "body_differential" in data:
        check_body_differential(acc)
        for v in acc.violations[:5]:
            print("VIOLATION property={} replay={}".format(PROP, path))
            print(" ", v.symptom, v.detail[:400])
        return 1 if acc.violations else 0
    if "state_breaking" in data:
        check_state_breaking(acc)
        for v in acc.violations[:5]:
            print("VIOLATION property={} replay={}".format(PROP, path))
            print(" ", v.symptom, v.detail[:400])
        return 1 if acc.violations else 0
    if "flyweight" in data:
        check_flyweight(drv, acc)
        for v in acc.violations[:5]:
            print("VIOLATION property={} replay={}".format(PROP, path))
            print(" ", v.symptom, v.detail[:400])
        return 1 if acc.violations else 0
    if "headroom" in data:
        check_stack_headroom(drv, pristine, acc)
        for v in acc.violations[:5]:
            print("VIOLATION property={} replay={}".format(PROP, path))
            print(" ", v.symptom, v.detail[:400])
        return 1 if acc.violations else 0
    if "library_ending" in data:
        check_library_endings(drv, pristine, acc)
        for v in acc.violations[:5]:
            print("VIOLATION property={} replay={}".format(PROP, path))
            print(" ", v.symptom, v.detail[:400])
        return 1 if acc.violations else 0
    check_scenario(drv, pristine, (data["call"], data["falsy"]), acc, second=tuple(data["second"]) if data.get("second") else None)
    for v in acc.violations[:5]:
        print("VIOLATION property={} replay={}".format(PROP, path))
        print(" ", v.symptom, v.detail[:400])
    return 1 if acc.violations else 0
