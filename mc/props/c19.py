"""C19 - misuse is rejected at the earliest point with the documented error.

Misuse kind x decorator kind x callable kind; every case is executed in three stages (create the decorator object,
apply it, call) and the stage + exception class must be the documented ones; conditions and bodies must not run in
rejected cases."""
import itertools
import json

from .. import core

PROP = "C19"

HDR = '''\
import functools
import icontract
EVAL = {"cond": 0, "body": 0}
def RUN(c):
    try:
        while True: c.send(None)
    except StopIteration as s:
        return s.value
def cond_true():
    # a condition without parameters: it can always be evaluated, whatever the signature of the decorated function
    EVAL["cond"] += 1
    return True
class CallableObj:
    def __call__(self, *a, **k):
        return ValueError("x")
'''

# callable kinds: how to define a target with a given parameter list and how to call it
TARGETS = ["func", "method", "static", "classm", "pset", "afunc", "amethod"]


def target_src(kind, params, deco_names, call_args):
    """Stage B source (applies decorators named in deco_names, top->bottom) and stage C expression."""
    decos = "".join("@{}\n".format(d) for d in deco_names)
    body = "    EVAL['body'] += 1\n    return 1\n"
    if kind == "func":
        return decos + "def f({}):\n{}".format(params, body), "f({})".format(call_args)
    if kind == "afunc":
        return decos + "async def f({}):\n{}".format(params, body), "RUN(f({}))".format(call_args)
    ind = lambda s: "".join("    " + ln + "\n" for ln in s.splitlines())
    if kind == "method":
        return "class K:\n" + ind(decos + "def f(self, {}):\n{}".format(params, body)), "K().f({})".format(call_args)
    if kind == "amethod":
        return "class K:\n" + ind(decos + "async def f(self, {}):\n{}".format(params, body)), "RUN(K().f({}))".format(call_args)
    if kind == "static":
        return "class K:\n" + ind("@staticmethod\n" + decos + "def f({}):\n{}".format(params, body)), "K.f({})".format(call_args)
    if kind == "classm":
        return "class K:\n" + ind("@classmethod\n" + decos + "def f(cls, {}):\n{}".format(params, body)), "K.f({})".format(call_args)
    if kind == "pset":
        return "class K:\n" + ind("@property\ndef f(self):\n    return 1\n@f.setter\n" + decos + "def f(self, {}):\n{}".format(params, body)), None
    if kind in ("inherited_method", "inherited_classm", "inherited_amethod"):
        # the decorators stand in the BASE class (whose function has ordinary parameters); the sub-class overrides the function without
        # any decorator - its checker is made by the meta-class - and its parameter list is the one under test
        head = {"inherited_method": ("", "def f(self, "), "inherited_classm": ("@classmethod\n", "def f(cls, "), "inherited_amethod": ("", "async def f(self, ")}[kind]
        base = "class B(icontract.DBC):\n" + ind(head[0] + decos + head[1] + "x, y=None):\n" + body)
        sub = "class K(B):\n" + ind(head[0] + head[1] + "{}):\n{}".format(params, body))
        callexpr = ("RUN(K().f({}))" if kind == "inherited_amethod" else "K.f({})" if kind == "inherited_classm" else "K().f({})").format(call_args)
        return base + sub, callexpr
    raise ValueError(kind)


def cases():
    """Each case: dict(label, create: {name: expr}, kind, params, decos: [names top->bottom], call_args, expect: (stage, exc) | ('ok',))"""
    out = []

    def add(label, create, kind, params, decos, call_args, expect, misuse):
        out.append({"label": label, "create": create, "kind": kind, "params": params, "decos": decos, "call_args": call_args,
                    "expect": list(expect), "misuse": misuse})

    for kind in TARGETS:
        single = kind == "pset"  # a setter has exactly one parameter besides self
        # 1. parameter named _ARGS / _KWARGS -> TypeError when decorated (whatever the contract decorator)
        for reserved in ("_ARGS", "_KWARGS"):
            for dname, dexpr in (("require", "icontract.require(cond_true)"), ("ensure", "icontract.ensure(cond_true)")):
                params = reserved if single else "x, " + reserved
                add("param_{}/{}/{}".format(reserved, dname, kind), {"D": dexpr}, kind, params, ["D"], "1" if single else "1, 2",
                    ("decorate", "TypeError"), "reserved_parameter")
            if not single:
                # keyword-only and defaulted forms of the reserved parameter
                for form, call in (("x, *, {}=None".format(reserved), "1"), ("x, *rest, {}".format(reserved), "1, {}=2".format(reserved)),
                                   ("x, {}=None".format(reserved), "1"), ("{}, /, x".format(reserved), "1, 2"),
                                   ("x, *{}".format(reserved), "1"), ("x, **{}".format(reserved), "1")):
                    add("param_{}_form/{}/{}".format(reserved, form.replace(" ", ""), kind), {"D": "icontract.require(cond_true)"}, kind, form, ["D"], call,
                        ("decorate", "TypeError"), "reserved_parameter")
        # 1b. the same parameter in a function which overrides a contracted one WITHOUT decorators of its own (checker made by the meta-class)
        if kind in ("method", "classm", "amethod"):
            for reserved in ("_ARGS", "_KWARGS"):
                for dname, dexpr in (("require", "icontract.require(cond_true)"), ("ensure", "icontract.ensure(cond_true)")):
                    add("param_{}/{}/inherited_{}".format(reserved, dname, kind), {"D": dexpr}, "inherited_" + kind, "x, " + reserved, ["D"], "1, 2",
                        ("decorate", "TypeError"), "reserved_parameter")
            # (control: an ordinary override is accepted and checked)
            add("control/require/inherited_{}".format(kind), {"D": "icontract.require(cond_true)"}, "inherited_" + kind, "x, y=None", ["D"], "1, 2", ("ok",), "control")
        # 2. keyword argument named _ARGS / _KWARGS at the call
        if kind != "pset":
            for reserved in ("_ARGS", "_KWARGS"):
                for dname, dexpr in (("require", "icontract.require(cond_true)"), ("ensure", "icontract.ensure(cond_true)")):
                    add("kwarg_{}/{}/{}".format(reserved, dname, kind), {"D": dexpr}, kind, "x, **kwargs", ["D"], "1, {}=2".format(reserved),
                        ("call", "TypeError"), "reserved_keyword")
            # the same keywords passed to a callable WITHOUT **kwargs: still the documented rejection, before any condition runs
            for reserved in ("_ARGS", "_KWARGS"):
                add("kwarg_{}_no_varkw/require/{}".format(reserved, kind), {"D": "icontract.require(cond_true)"}, kind, "x", ["D"], "1, {}=2".format(reserved),
                    ("call", "TypeError"), "reserved_keyword")
        # 3. parameter named result / OLD on a function with postconditions -> TypeError at the call
        for reserved in ("result", "OLD"):
            params = reserved if single else "x, " + reserved
            args = "1" if single else "1, 2"
            add("param_{}/ensure/{}".format(reserved, kind), {"D": "icontract.ensure(cond_true)"}, kind, params, ["D"], args,
                ("call", "TypeError"), "result_or_OLD_parameter")
            add("param_{}/require+ensure/{}".format(reserved, kind), {"D": "icontract.ensure(cond_true)", "R": "icontract.require(cond_true)"},
                kind, params, ["R", "D"], args, ("call", "TypeError"), "result_or_OLD_parameter")
            if not single:
                # keyword-only / defaulted forms of the parameter, supplied or left to its default
                for form, call in (("x, *, {}=None".format(reserved), "1"), ("x, *, {}=None".format(reserved), "1, {}=2".format(reserved)),
                                   ("x, {}=None".format(reserved), "1"), ("x, *rest, {}=3".format(reserved), "1, 2"),
                                   ("{}, /, x".format(reserved), "1, 2"),
                                   # the variable parameters bear the name: with and without surplus arguments in the call
                                   ("x, *{}".format(reserved), "1"), ("x, *{}".format(reserved), "1, 2"),
                                   ("x, **{}".format(reserved), "1"), ("x, **{}".format(reserved), "1, k=2")):
                    add("param_{}_form/{}/{}/{}".format(reserved, form.replace(" ", ""), call.replace(" ", ""), kind), {"D": "icontract.ensure(cond_true)"},
                        kind, form, ["D"], call, ("call", "TypeError"), "result_or_OLD_parameter")
            # with preconditions only such a parameter is legal
            add("param_{}/require_only_ok/{}".format(reserved, kind), {"R": "icontract.require(cond_true)"}, kind, params, ["R"], args,
                ("ok",), "control")
        # 6. snapshot placed before any postcondition
        p1 = "x"
        a1 = "1"
        add("snapshot_bare/{}".format(kind), {"S": "icontract.snapshot(lambda x: x)"}, kind, p1, ["S"], a1, ("decorate", "ValueError"), "snapshot_without_postcondition")
        add("snapshot_require_only/{}".format(kind), {"S": "icontract.snapshot(lambda x: x)", "R": "icontract.require(cond_true)"}, kind, p1, ["S", "R"], a1,
            ("decorate", "ValueError"), "snapshot_without_postcondition")
        add("snapshot_below_ensure/{}".format(kind), {"S": "icontract.snapshot(lambda x: x)", "E": "icontract.ensure(cond_true)"}, kind, p1, ["E", "S"], a1,
            ("decorate", "ValueError"), "snapshot_without_postcondition")
        add("snapshot_above_ensure_ok/{}".format(kind), {"S": "icontract.snapshot(lambda x: x)", "E": "icontract.ensure(cond_true)"}, kind, p1, ["S", "E"], a1,
            ("ok",), "control")
        add("snapshot_unnamed_two_args/{}".format(kind), {"S": "icontract.snapshot(lambda x, y: x)"}, kind, p1, ["S"], a1, ("create", "ValueError"), "snapshot_name")
        add("snapshot_unnamed_two_args_one_defaulted/{}".format(kind), {"S": "icontract.snapshot(lambda x, n=2: x)"}, kind, p1, ["S"], a1, ("create", "ValueError"), "snapshot_name")
        add("snapshot_unnamed_no_args/{}".format(kind), {"S": "icontract.snapshot(lambda: 1)"}, kind, p1, ["S"], a1, ("create", "ValueError"), "snapshot_name")
    # 7. invalid error kinds x the three decorators (decorator creation)
    for deco in ("require", "ensure", "invariant"):
        cond = "lambda self: True" if deco == "invariant" else "cond_true"
        for inv in ("'a string'", "42", "functools.partial(ValueError, 'x')", "CallableObj()", "len", "int", "object()", "[ValueError]"):
            add("invalid_error/{}/{}".format(deco, inv), {"D": "icontract.{}({}, error={})".format(deco, cond, inv)}, "func", "x", [], "1",
                ("create", "ValueError"), "invalid_error")
        for ok in ("ValueError", "ValueError('x')", "lambda: ValueError('x')", "KeyboardInterrupt", "CallableObj().__call__"):
            add("valid_error_ok/{}/{}".format(deco, ok), {"D": "icontract.{}({}, error={})".format(deco, cond, ok)}, "func", "x", [], "1", ("ok",), "control")
    # 4./5. invariant conditions
    inv_cases = [
        ("extra_mandatory", "lambda self, x: True", ("create", "ValueError")),
        ("other_than_self", "lambda this: True", ("create", "ValueError")),
        ("two_others", "lambda a, b: True", ("create", "ValueError")),
        ("coroutine_function", "acond", ("create", "ValueError")),
        ("partial_of_coroutine_function", "functools.partial(acond)", ("create", "ValueError")),
        ("partial_of_coroutine_function_with_bound_keyword", "functools.partial(acond2, flag=True)", ("create", "ValueError")),
        # other callables whose call gives an (always truthy) asynchronous object instead of a verdict
        ("async_generator_function", "agencond", ("create", "ValueError")),
        ("generator_based_coroutine_function", "gcocond", ("create", "ValueError")),
        ("partial_of_async_generator_function", "functools.partial(agencond)", ("create", "ValueError")),
        ("only_var_positional", "lambda *args: True", ("create", "ValueError")),
        ("self_and_var_positional", "lambda self, *others: True", ("create", "ValueError")),
        ("self_and_var_keyword", "lambda self, **kw: True", ("create", "ValueError")),
        ("only_var_keyword", "lambda **kw: True", ("create", "ValueError")),
        ("self_and_mandatory_keyword_only", "lambda self, *, z: True", ("create", "ValueError")),
        ("var_keyword_named_self", "lambda **self: True", ("create", "ValueError")),
        ("var_positional_named_self", "lambda *self: True", ("create", "ValueError")),
        ("positional_only_self", "lambda self, /: True", ("create", "ValueError")),
        ("keyword_only_self_ok", "lambda *, self: True", ("ok",)),
        ("self_ok", "lambda self: True", ("ok",)),
        ("no_args_ok", "lambda: True", ("ok",)),
        ("self_and_default_ok", "lambda self, y=1: True", ("ok",)),
    ]
    for label, cond, expect in inv_cases:
        for check_on in ("", ", check_on=icontract.InvariantCheckEvent.ALL"):
            add("invariant_{}{}".format(label, "/ALL" if check_on else ""), {"D": "icontract.invariant({}{})".format(cond, check_on)}, "class", "", ["D"], "",
                expect, "invariant_condition_signature" if expect != ("ok",) else "control")
    return out


def run_case(case, acc):
    label = case["label"]
    feats = {"label": label.split("/")[0], "kind": case["kind"], "misuse": case["misuse"], "decorators": "+".join(case["decos"])}
    ns = core.load_source(HDR + "async def acond(self):\n    return True\nasync def acond2(self, flag=False):\n    return True\n"
                          "import types\nasync def agencond(self):\n    yield True\n@types.coroutine\ndef gcocond(self):\n    yield\n    return True\n", "c19")
    stage, exc = "ok", None
    try:
        def go():
            nonlocal_stage = ["create"]
            try:
                for name, expr in case["create"].items():
                    ns[name] = eval(expr, ns)
                nonlocal_stage[0] = "decorate"
                if case["kind"] == "class":
                    src = "".join("@{}\n".format(d) for d in case["decos"]) + "class K:\n    def __init__(self):\n        EVAL['body'] += 1\n        self.x = 1\n"
                    call = "K()"
                else:
                    src, call = target_src(case["kind"], case["params"], case["decos"], case["call_args"])
                exec(compile(src, ns["__file__"], "exec"), ns)
                nonlocal_stage[0] = "call"
                ns["EVAL"]["cond"] = ns["EVAL"]["body"] = 0
                if call is None:
                    k = ns["K"]()
                    k.f = 1
                else:
                    eval(call, ns)
                return "ok", None
            except Exception as e:
                return nonlocal_stage[0], e
        stage, exc = core.fresh_ctx_run(go)
        got = [stage] if stage == "ok" else [stage, type(exc).__name__]
        acc.case(label, True, 3, tuple(got))
        want = case["expect"]
        if got != want:
            sym = "misuse_silently_accepted" if got == ["ok"] else ("rejected_at_wrong_moment" if want != ["ok"] and got[1:] == want[1:] else
                                                                     ("legal_use_rejected" if want == ["ok"] else "wrong_exception"))
            acc.violation(core.Violation(PROP, sym, feats, "{}: expected {} got {} ({!r})".format(label, want, got, exc),
                                         spec={"case": case}, script=HDR))
        elif want != ["ok"] and case["misuse"] in ("reserved_parameter", "reserved_keyword", "result_or_OLD_parameter") and not any(
                name in str(exc) for name in ("_ARGS", "_KWARGS", "'result'", "'OLD'")):
            acc.violation(core.Violation(PROP, "rejected_for_another_reason", feats,
                                         "{}: rejected with {} but the message does not name the reserved word: {!r}".format(label, got, str(exc)[:200]),
                                         spec={"case": case}, script=HDR))
        elif want != ["ok"] and (ns["EVAL"]["body"] or (want[0] == "call" and ns["EVAL"]["cond"])):
            acc.violation(core.Violation(PROP, "evaluated_despite_rejection", feats,
                                         "{}: rejected as expected but condition ran {} times, body {} times".format(label, ns["EVAL"]["cond"], ns["EVAL"]["body"]),
                                         spec={"case": case}, script=HDR))
        acc.sample({"case": label, "expect": want}, cap=3)
    finally:
        core.unload_source(ns)


def work(chunk):
    import warnings
    warnings.simplefilter("ignore", RuntimeWarning)
    acc = core.Acc()
    for case in chunk:
        run_case(case, acc)
    return acc.result()


def run(tier, t0):
    cs = core.rotate(cases())
    tot = core.merge(core.pmap(work, cs, nproc=8))
    return core.finish(
        PROP, tier, tot, t0,
        rule="misuse kind (parameter _ARGS/_KWARGS; keyword _ARGS/_KWARGS at the call; parameter result/OLD with postconditions; "
             "snapshot on a bare function / with preconditions only / below the postcondition; unnamed capture with 0 or 2 "
             "parameters; invalid error kinds; invariant conditions with a wrong signature or as coroutine functions) x decorator "
             "kind x callable kind (function, method, static, class method, property setter, async function, async method), each "
             "with legal control cases; every case runs in three stages (create decorator, apply, call): stage and exception "
             "class must be the documented ones and neither condition nor body may run in a rejected case; non-trivial = every case",
        assumptions=["the documented moments: reserved parameters at decoration, reserved keywords and result/OLD parameters at the "
                     "call, invariant/snapshot/error misuse when the decorator is created resp. applied"],
        bounds={"cases": len(cs)},
    )


def replay(path):
    data = json.load(open(path))["spec"]
    acc = core.Acc()
    run_case(data["case"], acc)
    for v in acc.violations[:5]:
        print("VIOLATION property={} replay={}".format(PROP, path))
        print(" ", v.symptom, v.detail[:600])
    return 1 if acc.violations else 0
