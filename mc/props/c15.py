"""C15 - disabled contracts are absent; enabled ones do not depend on the interpreter mode.

Nine sub-processes (interpreter mode normal/-O/-OO x ICONTRACT_SLOW unset/empty/"1") each enumerate the full product
decorator x enabled option x target kind and report what happened; the parent compares with the table computed from
the statement, and compares the behaviour of explicitly enabled contracts across the three interpreter modes."""
import concurrent.futures
import json
import os
import subprocess
import sys

from .. import core

PROP = "C15"
MODES = [("normal", []), ("O", ["-O"]), ("OO", ["-OO"])]
SLOWS = [("unset", None), ("empty", ""), ("one", "1")]


def run_child(mode_flags, slow):
    env = dict(os.environ)
    env["VERIF_C15_VERIF"] = core.VERIF_DIR
    env["VERIF_REPO"] = core.REPO
    env["PYTHONDONTWRITEBYTECODE"] = "1"
    env["PYTHONHASHSEED"] = "0"
    env.pop("ICONTRACT_SLOW", None)
    if slow is not None:
        env["ICONTRACT_SLOW"] = slow
    p = subprocess.run([core.PY] + mode_flags + [os.path.join(core.VERIF_DIR, "mc", "c15_child.py")],
                       env=env, capture_output=True, text=True, timeout=900)
    if p.returncode != 0:
        return {"crash": p.stderr[-2000:]}
    return json.loads(p.stdout)


def effective(option, debug, slow_env):
    if option == "default":
        return debug
    if option == "True":
        return True
    if option in ("False", "None", "0", "empty_str"):
        return False
    if option == "1":
        return True
    return debug and (slow_env is not None and slow_env != "")


def run(tier, t0):
    acc = core.Acc()
    configs = [(m, f, s, sv) for m, f in MODES for s, sv in SLOWS]
    with concurrent.futures.ThreadPoolExecutor(max_workers=9) as ex:
        results = list(ex.map(lambda c: run_child(c[1], c[3]), configs))
    by_mode = {}
    for (mode, flags, sname, sval), res in zip(configs, results):
        feats0 = {"mode": mode, "slow": sname}
        if "crash" in res:
            acc.case(("child", mode, sname), True, 1, "crash")
            acc.violation(core.Violation(PROP, "child_crashed", feats0, res["crash"], spec={"mode": mode, "slow": sname}))
            continue
        debug = mode == "normal"
        if res["debug"] != debug:
            raise SystemExit("harness error: child __debug__ mismatch")
        want_slow = debug and (sval is not None and sval != "")
        acc.case(("SLOW", mode, sname), True, 1, res["SLOW"])
        if res["SLOW"] != want_slow:
            acc.violation(core.Violation(PROP, "SLOW_value", feats0, "icontract.SLOW is {} expected {}".format(res["SLOW"], want_slow),
                                         spec={"mode": mode, "slow": sname}))
        for row in res["table"]:
            en = effective(row["enabled"], debug, sval)
            feats = dict(feats0, deco=row["deco"], enabled=row["enabled"], kind=row["kind"], effective=en)
            acc.case((mode, sname, row["deco"], row["enabled"], row["kind"]), True, 3, (en, row.get("call")))
            bad = None
            deco = row["deco"]
            if not en:
                if row.get("create") != "ok" or row.get("apply") != "ok":
                    bad = ("disabled_decorator_raised", "a disabled decorator must return what it was given, got {}".format(row))
                elif not row["same_object"]:
                    bad = ("disabled_not_same_object", str(row))
                elif not row["vars_unchanged"]:
                    bad = ("disabled_added_attributes", str(row))
                elif row["cond_calls"] or row["cap_calls"]:
                    bad = ("disabled_condition_called", str(row))
                elif deco in ("require", "ensure", "invariant") and row["call"] != "ret":
                    bad = ("disabled_contract_enforced", str(row))
                elif row.get("invalid_error") == "ValueError":
                    bad = ("disabled_validated_error", str(row))
            elif row["kind"] in ("static_object", "classm_object", "property_object"):
                pass  # an ENABLED decorator above @staticmethod / @classmethod is not in the statement (the documented order is below)
            else:
                if deco in ("require", "ensure", "invariant"):
                    if row.get("apply") != "ok" or row["call"] == "ret" or row["cond_calls"] < 1:
                        bad = ("enabled_contract_not_enforced", str(row))
                    elif deco != "invariant" and row["same_object"]:
                        bad = ("enabled_returned_same_object", str(row))
                    elif row.get("invalid_error") != "ValueError":
                        bad = ("enabled_invalid_error_accepted", str(row))
                elif deco == "snapshot_over_enabled_ensure":
                    if row.get("apply") != "ok" or row["cap_calls"] != 1 or row["call"] != "ret":
                        bad = ("enabled_snapshot_not_captured", str(row))
                elif deco == "snapshot_over_bare":
                    if row.get("apply") != "exc:ValueError":
                        bad = ("enabled_snapshot_without_postcondition_accepted", str(row))
                elif deco == "snapshot_over_same_ensure":
                    if row.get("apply") != "ok" or row["cap_calls"] != 1:
                        bad = ("enabled_snapshot_not_captured", str(row))
            if bad:
                acc.violation(core.Violation(PROP, bad[0], feats, bad[1], spec={"mode": mode, "slow": sname, "row": row}))
        by_mode.setdefault(sname, {})[mode] = res
    # explicitly enabled contracts: identical in all interpreter modes
    for sname, modes in by_mode.items():
        if "normal" not in modes:
            continue
        ref = modes["normal"]
        for mode in ("O", "OO"):
            if mode not in modes:
                continue
            other = modes[mode]
            for part in ("family", "messages", "misuse"):
                a, b = ref[part], other[part]
                n = max(len(a), len(b))
                for i in range(n):
                    acc.case((sname, mode, part, i), True, 1, "same" if i < len(a) and i < len(b) and a[i] == b[i] else "diff")
                    if i >= len(a) or i >= len(b) or a[i] != b[i]:
                        acc.violation(core.Violation(
                            PROP, "enabled_contract_depends_on_interpreter_mode", {"mode": mode, "slow": sname, "part": part},
                            "{} item {}: normal {} vs -{} {}".format(part, i, str(a[i] if i < len(a) else None)[:400],
                                                                       mode, str(b[i] if i < len(b) else None)[:400]),
                            spec={"mode": mode, "slow": sname, "part": part, "index": i}))
                        break
    acc.sample({"configs": [c[0] + "/" + c[2] for c in configs], "table_rows_per_config": len(results[0].get("table", [])) if results else 0})
    tot = core.merge([acc.result()])
    return core.finish(
        PROP, tier, tot, t0,
        rule="9 sub-processes (normal/-O/-OO x ICONTRACT_SLOW unset/''/'1'); in each the full product decorator (require, ensure, "
             "snapshot over enabled/same-option/no postcondition, invariant) x enabled option (default, True, False, None, 0, empty string, 1, "
             "icontract.SLOW) x target kind (function, method, static, class method, property, async, class): same object, "
             "vars unchanged, zero condition/capture calls, no validation of error when disabled; enforced when enabled; plus "
             "explicitly enabled family-F programs (logs, outcomes), generated messages and reserved-name misuse cases compared "
             "item by item between normal, -O and -OO; non-trivial = every compared row",
        assumptions=["the statement's table: default -> __debug__, SLOW -> __debug__ and ICONTRACT_SLOW non-empty"],
        bounds={"configurations": 9},
    )


def replay(path):
    print("re-run ./check C15 (sub-process configurations are recorded in the replay file)")
    return run("quick", __import__("time").time())
