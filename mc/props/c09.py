"""C09 - the `error` argument decides exactly what a violation raises."""
import itertools
import json
import re

from .. import core

PROP = "C09"

CALLABLES = ["func", "method", "static", "classm", "pset", "afunc", "amethod"]
FORMS = ["none", "cls", "inst", "func", "lambda", "bound", "static_via_class", "classm_via_class", "base_cls", "base_inst", "falsy_inst", "falsy_cls", "callable_inst", "none_new_cls"]

PRELUDE = '''\
import functools
import icontract
LOG = []
T = {"c": False}
class Obj:
    def __init__(self, tag): self.tag = tag
    def __repr__(self): return "<" + self.tag + ">"
R = Obj("R")
SNAP = Obj("SNAP")
class MyErr(Exception): pass
WRONG = Obj("WRONG")
class MyBase(BaseException): pass
class FalsyErr(Exception):
    def __bool__(self): return False
class EmptyErr(Exception):
    def __len__(self): return 0
class CallableErr(Exception):
    # an exception whose instances are callable (e.g., WSGI-style HTTP errors): still an instance, raised as that same object
    def __call__(self, *args, **kwargs):
        LOG.append(('ef', {'called': True}))
        return MyErr('from __call__')
CINST = CallableErr("the callable instance")
class NoneNewErr(Exception):
    # an exception class which does not hand out exceptions: a non-exception "return value", i.e. a TypeError, never silence
    def __new__(cls, *args, **kwargs):
        return None
FINST = FalsyErr("the falsy instance")
INST = MyErr("the instance")
BINST = MyBase("the base instance")
RET = {"v": None}
def RUN(c):
    try:
        while True: c.send(None)
    except StopIteration as s:
        return s.value
'''


def avail(role, callable_kind):
    names = ["x", "_ARGS", "_KWARGS"]
    if callable_kind in ("method", "pset", "amethod"):
        names.append("self")
    if role == "post":
        names += ["result", "OLD"]
    if role == "inv":
        names = ["self"]
    return names


def render(case):
    role, ck, form, subset = case["role"], case["callable"], case["form"], case["subset"]
    w = [PRELUDE]
    log_expr = "{" + ", ".join("'{0}': {0}".format(n) for n in subset) + "}"
    # fac_defaults: every parameter of the factory carries a (wrong) default; the values of the call must win
    params = ", ".join((n + "=WRONG") if case.get("fac_defaults") else n for n in subset)
    if case.get("fac_kwonly") and subset:
        # the factory takes its parameters as keyword-only ones
        params = "*, " + params
    fac_body = "    LOG.append(('ef', {}))\n    RET['v'] = {}\n    return RET['v']\n".format(log_expr, case.get("fac_ret", "MyErr('from factory')"))
    if case.get("fac_raise"):
        # the factory itself fails (with the kind of error a mis-supplied argument would give as well): it is called once, its error surfaces
        fac_body = "    LOG.append(('ef', {}))\n    raise {}\n".format(log_expr, case["fac_raise"])
    err = None
    if form == "none":
        err = ""
    elif form == "cls":
        err = ", error=MyErr"
    elif form == "base_cls":
        err = ", error=MyBase"
    elif form == "inst":
        err = ", error=INST"
    elif form == "base_inst":
        err = ", error=BINST"
    elif form == "falsy_inst":
        err = ", error=FINST"
    elif form == "callable_inst":
        err = ", error=CINST"
    elif form == "none_new_cls":
        err = ", error=NoneNewErr"
    elif form == "falsy_cls":
        err = ", error=FalsyErr"
    elif form == "func":
        w.append("def EF({}):\n{}".format(params, fac_body))
        err = ", error=EF"
    elif form == "lambda":
        w.append("def _ef_impl(d):\n    LOG.append(('ef', d))\n    RET['v'] = {}\n    return RET['v']\n".format(case.get("fac_ret", "MyErr('from factory')")))
        err = ", error=lambda {}: _ef_impl({})".format(params, log_expr)
    elif form in ("bound", "static_via_class", "classm_via_class"):
        deco = {"bound": "", "static_via_class": "    @staticmethod\n", "classm_via_class": "    @classmethod\n"}[form]
        first = {"bound": "me", "static_via_class": None, "classm_via_class": "klass"}[form]
        ps = ", ".join(([first] if first else []) + list(subset))
        w.append("class Holder:\n{}    def make({}):\n".format(deco, ps) + "".join("    " + ln + "\n" for ln in fac_body.splitlines()))
        err = ", error=" + {"bound": "Holder().make", "static_via_class": "Holder.make", "classm_via_class": "Holder.make"}[form]
    cond_params = {"pre": "x", "post": "result", "inv": "self"}[role]
    w.append("def cond({}):\n    LOG.append(('cond',))\n    return T['c']\n".format(cond_params))
    deco = {"pre": "@icontract.require(cond{})".format(err),
            "post": "@icontract.snapshot(lambda x: SNAP, name='s')\n@icontract.ensure(cond{})".format(err),
            "inv": "@icontract.invariant(cond{})".format(err)}[role]
    body = "    LOG.append(('body',))\n    return R\n"
    if role == "inv":
        w.append(deco + "\nclass K:\n    def __init__(self):\n        self.v = 1\n")
        if ck == "method":
            w.append("    def f(self, x):\n    " + body.replace("\n    ", "\n        "))
        elif ck == "amethod":
            w.append("    async def f(self, x):\n    " + body.replace("\n    ", "\n        "))
        elif ck == "pset":
            w.append("    @property\n    def f(self):\n        return 1\n    @f.setter\n    def f(self, x):\n        LOG.append(('body',))\n")
        elif ck == "init":
            pass
        return "".join(w)
    dl = deco.splitlines()
    if ck == "func":
        w.append(deco + "\ndef f(x, y=None):\n" + body)
    elif ck == "afunc":
        w.append(deco + "\nasync def f(x, y=None):\n" + body)
    else:
        ind = lambda s: "".join("    " + ln + "\n" for ln in s.splitlines())
        w.append("class K:\n")
        if ck == "method":
            w.append(ind(deco + "\ndef f(self, x, y=None):\n" + body))
        elif ck == "amethod":
            w.append(ind(deco + "\nasync def f(self, x, y=None):\n" + body))
        elif ck == "static":
            w.append(ind("@staticmethod\n" + deco + "\ndef f(x, y=None):\n" + body))
        elif ck == "classm":
            w.append(ind("@classmethod\n" + deco + "\ndef f(cls, x, y=None):\n" + body))
        elif ck == "pset":
            w.append(ind("@property\ndef f(self):\n    return 1\n@f.setter\n" + deco + "\ndef f(self, x):\n" + body))
    return "".join(w)


def cases(tier):
    out = []
    for role in ("pre", "post", "inv"):
        cks = CALLABLES if role != "inv" else ["method", "amethod", "pset", "init"]
        for ck in cks:
            names = avail(role, ck)
            if role != "inv" and ck == "pset":
                names = [n for n in names]
            for form in FORMS:
                if form in ("func", "lambda", "bound", "static_via_class", "classm_via_class"):
                    subsets = []
                    for r in range(0, len(names) + 1):
                        for sub in itertools.combinations(names, r):
                            subsets.append(list(sub))
                    if form != "func" and tier == "quick":
                        subsets = [s for s in subsets if len(s) in (0, 1, len(names))]
                    for sub in subsets:
                        out.append({"role": role, "callable": ck, "form": form, "subset": sub})
                        if sub and form in ("func", "lambda", "bound"):
                            out.append({"role": role, "callable": ck, "form": form, "subset": sub, "fac_defaults": True})
                            out.append({"role": role, "callable": ck, "form": form, "subset": sub, "fac_kwonly": True})
                            out.append({"role": role, "callable": ck, "form": form, "subset": sub, "fac_kwonly": True, "fac_defaults": True})
                    if form in ("func", "bound"):
                        out.append({"role": role, "callable": ck, "form": form, "subset": names[:1] + ["nope"], "unknown": "nope"})
                        out.append({"role": role, "callable": ck, "form": form, "subset": names[:1], "fac_ret": "'not an exception'"})
                        out.append({"role": role, "callable": ck, "form": form, "subset": names[:1], "fac_ret": "MyBase('base from factory')"})
                        out.append({"role": role, "callable": ck, "form": form, "subset": names[:1], "fac_ret": "FalsyErr('falsy from factory')"})
                        out.append({"role": role, "callable": ck, "form": form, "subset": [], "fac_ret": "EmptyErr('empty from factory')"})
                        out.append({"role": role, "callable": ck, "form": form, "subset": names[:1], "fac_raise": "TypeError('raised by the factory')"})
                else:
                    out.append({"role": role, "callable": ck, "form": form, "subset": []})
    return out


INVALID = ["'a string'", "42", "functools.partial(MyErr, 'x')", "CallableObj()", "len", "int", "object()", "[MyErr]"]


def invalid_cases():
    out = []
    for deco in ("require", "ensure", "invariant", "snapshot_na"):
        if deco == "snapshot_na":
            continue
        for inv in INVALID:
            out.append({"deco": deco, "error": inv})
    return out


MSG_RE = re.compile(r"^File [^\n]+, line \d+ in [^\n]+:\ncond(:|$)")


def run_case(case, acc):
    src = render(case)
    role, ck, form = case["role"], case["callable"], case["form"]
    feats = {"role": role, "callable": ck, "form": form, "subset": ",".join(case["subset"]),
             "unknown": case.get("unknown"), "fac_ret": case.get("fac_ret"), "fac_defaults": case.get("fac_defaults", False)}
    key = json.dumps(case, sort_keys=True)

    def viol(sym, detail):
        acc.violation(core.Violation(PROP, sym, feats, detail, spec={"case": case}, script=src))

    try:
        ns = core.fresh_ctx_run(core.load_source, src, "c09")
    except Exception as e:
        acc.case(("def", key), True, 1, "def_error")
        viol("definition_failed", "valid error form rejected at definition: {!r}".format(e))
        return
    try:
        import icontract

        def history():
            """three violating calls with a passing one in between, all in one context"""
            results = []
            ns["T"]["c"] = True
            obj = ns["K"]() if "K" in ns and ck != "init" else None
            for i, truth in enumerate((False, True, False, False)):
                ns["T"]["c"] = truth
                if role == "inv" and ck == "init":
                    pass
                del ns["LOG"][:]
                ns["RET"]["v"] = None
                X = ns["Obj"]("X{}".format(i))
                Y = ns["Obj"]("Y{}".format(i))
                exc = None
                args, kwargs = (X,), {"y": Y}
                try:
                    if role == "inv" and ck == "init":
                        obj2 = ns["K"]()
                        selfobj = None
                        args, kwargs = (), {}
                    elif ck in ("func",):
                        ns["f"](X, y=Y)
                    elif ck == "afunc":
                        ns["RUN"](ns["f"](X, y=Y))
                    elif ck in ("method", "static", "classm"):
                        if role == "inv":
                            kwargs = {}
                            obj.f(X)
                        else:
                            obj.f(X, y=Y)
                    elif ck == "amethod":
                        if role == "inv":
                            kwargs = {}
                            ns["RUN"](obj.f(X))
                        else:
                            ns["RUN"](obj.f(X, y=Y))
                    elif ck == "pset":
                        kwargs = {}
                        obj.f = X
                except BaseException as e:
                    exc = e
                results.append((truth, X, args, kwargs, obj, exc, list(ns["LOG"]), ns["RET"]["v"]))
            return results

        results = core.fresh_ctx_run(history)
        for i, (truth, X, args, kwargs, obj, exc, log, ret) in enumerate(results):
            efs = [e for e in log if e[0] == "ef"]
            acc.case((key, i), True, len(log), (form, type(exc).__name__ if exc else "ret"))
            if truth:
                if exc is not None or efs:
                    viol("error_on_satisfied_contract", "call {} (condition true): exc={!r} factory calls={}".format(i, exc, len(efs)))
                continue
            # violated
            if exc is None:
                viol("violation_not_raised", "call {}: no exception; log={}".format(i, log))
                continue
            is_fac = form in ("func", "lambda", "bound", "static_via_class", "classm_via_class")
            if is_fac and case.get("unknown"):
                if not isinstance(exc, TypeError) or case["unknown"] not in str(exc) or efs:
                    viol("unknown_factory_argument", "expected TypeError naming {!r} and no factory call, got {!r} efs={}".format(case["unknown"], exc, efs))
                continue
            if is_fac and case.get("fac_raise"):
                if len(efs) != 1 or type(exc) is not TypeError or "raised by the factory" not in str(exc):
                    viol("factory_call_count" if len(efs) != 1 else "raised_not_the_returned_exception",
                         "call {}: the factory raises TypeError('raised by the factory'): it was called {} times, the caller got {!r}".format(i, len(efs), exc))
                continue
            if is_fac:
                if len(efs) != 1:
                    viol("factory_call_count", "call {}: factory called {} times".format(i, len(efs)))
                    continue
                got = efs[0][1]
                if sorted(got) != sorted(case["subset"]):
                    viol("factory_arguments", "factory got names {} expected {}".format(sorted(got), sorted(case["subset"])))
                    continue
                bad = None
                for n, v in got.items():
                    if n == "x" and v is not X:
                        bad = n
                    elif n == "self" and (v is not obj if ck != "init" else v is None):
                        bad = n
                    elif n == "result" and v is not ns["R"]:
                        bad = n
                    elif n == "OLD" and getattr(v, "s", None) is not ns["SNAP"]:
                        bad = n
                    elif n == "_ARGS":
                        want = ((obj,) if ck in ("method", "amethod", "pset") else ((type(obj),) if ck == "classm" else ())) + tuple(args)
                        if not (isinstance(v, tuple) and len(v) == len(want) and all(a is b for a, b in zip(v, want))):
                            bad = n
                    elif n == "_KWARGS":
                        if not (isinstance(v, dict) and sorted(v) == sorted(kwargs) and all(v[k] is kwargs[k] for k in v)):
                            bad = n
                if bad:
                    viol("factory_value", "call {}: factory received a wrong object for {!r}: {}".format(i, bad, got))
                    continue
                if case.get("fac_ret", "").startswith("'"):
                    if not isinstance(exc, TypeError):
                        viol("non_exception_return", "factory returned a str; expected TypeError, got {!r}".format(exc))
                    continue
                if exc is not ret:
                    viol("raised_not_the_returned_exception", "call {}: raised {!r}, factory returned {!r}".format(i, exc, ret))
                continue
            if efs:
                viol("factory_called_unexpectedly", str(efs))
                continue
            if form == "none":
                if type(exc) is not icontract.ViolationError or not issubclass(icontract.ViolationError, AssertionError) \
                        or not MSG_RE.match(str(exc)):
                    viol("default_error", "call {}: expected ViolationError with the generated message, got {!r}".format(i, exc))
            elif form in ("cls", "base_cls", "falsy_cls"):
                want = {"cls": ns["MyErr"], "base_cls": ns["MyBase"], "falsy_cls": ns["FalsyErr"]}[form]
                if type(exc) is not want or len(exc.args) != 1 or not MSG_RE.match(str(exc.args[0])):
                    viol("error_class", "call {}: expected {}(generated message), got {!r}".format(i, want.__name__, exc))
            elif form == "none_new_cls":
                if type(exc) is not TypeError:
                    viol("non_exception_return", "call {}: the class gave None instead of an exception; expected TypeError, got {!r}".format(i, exc))
            elif form in ("inst", "base_inst", "falsy_inst", "callable_inst"):
                want = {"inst": ns["INST"], "base_inst": ns["BINST"], "falsy_inst": ns["FINST"], "callable_inst": ns["CINST"]}[form]
                if exc is not want:
                    viol("error_instance_identity", "call {} (violation #{}): raised {!r} (id {}) is not the configured instance (id {})".format(
                        i, [r[0] for r in results[: i + 1]].count(False), exc, id(exc), id(want)))
        acc.sample({"case": case}, cap=2)
    finally:
        core.unload_source(ns)


def run_invalid(case, acc):
    src = PRELUDE + "class CallableObj:\n    def __call__(self, *a, **k):\n        return MyErr('x')\n"
    ns = core.load_source(src, "c09inv")
    try:
        import icontract

        deco = getattr(icontract, case["deco"])
        cond = (lambda self: True) if case["deco"] == "invariant" else (lambda x: True)
        err_obj = eval(case["error"], ns)
        exc = None
        try:
            deco(cond, error=err_obj)
        except Exception as e:
            exc = e
        acc.case(("invalid", case["deco"], case["error"]), True, 1, type(exc).__name__ if exc else "accepted")
        if type(exc) is not ValueError:
            acc.violation(core.Violation(PROP, "invalid_error_not_rejected", {"deco": case["deco"], "error": case["error"]},
                                         "icontract.{}(..., error={}) at decorator creation: expected ValueError, got {!r}".format(
                                             case["deco"], case["error"], exc), spec={"invalid": case}))
        # disabled decorators must not validate (C15 deals with it); nothing more here
    finally:
        core.unload_source(ns)


# ---------------------------------------------------------------------------------------------------------------
# several groups of preconditions (an override weakens its base): the factory of a group that fails is called only if the call
# is rejected, and then only the factory of the contract which is reported

GROUPS_SRC = '''\
import icontract
LOG = []
T = {}
RET = {}
class MyErr(Exception): pass
def RUN(c):
    try:
        c.send(None)
    except StopIteration as e:
        return e.value
    raise AssertionError("suspended")
def mk(name):
    def cond(x):
        LOG.append(("cond", name))
        return T.get(name, True)
    def fac(x):
        LOG.append(("ef", name))
        RET[name] = MyErr(name)
        return RET[name]
    return cond, fac
ca, fa = mk("a")
cb, fb = mk("b")
cc, fc = mk("c")
class A(icontract.DBC):
    @icontract.require(ca, error=fa)
    ADEF f(self, x):
        return "A"
class B(A):
    @icontract.require(cb, error=fb)
    ADEF f(self, x):
        return "B"
class C(B):
    @icontract.require(cc, error=fc)
    ADEF f(self, x):
        return "C"
'''


def check_groups(acc):
    for is_async in (False, True):
        src = GROUPS_SRC.replace("ADEF", "async def" if is_async else "def")
        ns = core.fresh_ctx_run(core.load_source, src, "c09g")
        try:
            for cls_name, names in (("A", "a"), ("B", "ab"), ("C", "abc")):
                for bits in itertools.product((True, False), repeat=len(names)):
                    truth = dict(zip(names, bits))

                    def call():
                        ns["T"].clear()
                        ns["T"].update(truth)
                        ns["RET"].clear()
                        del ns["LOG"][:]
                        try:
                            r = ns[cls_name]().f(1)
                            return ("ret", ns["RUN"](r) if is_async else r)
                        except BaseException as e:  # noqa
                            return ("exc", e)
                    out = core.fresh_ctx_run(call)
                    log = list(ns["LOG"])
                    efs = [e[1] for e in log if e[0] == "ef"]
                    feats = {"part": "groups", "callable": "amethod" if is_async else "method", "cls": cls_name, "role": "pre", "form": "func"}
                    acc.case(("groups", is_async, cls_name, bits), True, len(log), out[0])
                    bad = None
                    if any(bits):
                        if out != ("ret", cls_name):
                            bad = ("accepted_call_rejected", "a group holds but the call gave {!r}".format(out))
                        elif efs:
                            bad = ("factory_called_unexpectedly", "the call was accepted, yet the factories of {} were called".format(efs))
                    else:
                        if out[0] != "exc" or len(efs) != 1:
                            bad = ("factory_call_count", "all groups fail: outcome {!r}, factories called: {}".format(out, efs))
                        elif out[1] is not ns["RET"].get(efs[0]):
                            bad = ("raised_not_the_returned_exception", "raised {!r}, factory {} returned {!r}".format(out[1], efs[0], ns["RET"].get(efs[0])))
                    if bad:
                        acc.violation(core.Violation(PROP, bad[0], feats, "{} truth={}: {} (log {})".format(cls_name, truth, bad[1], log),
                                                     spec={"part": "groups"}, script=src))
            acc.sample({"part": "groups", "is_async": is_async}, cap=1)
        finally:
            core.unload_source(ns)


def work(chunk):
    acc = core.Acc()
    for case in chunk:
        if case.get("part") == "groups":
            check_groups(acc)
            continue
        if "deco" in case:
            run_invalid(case, acc)
        else:
            run_case(case, acc)
    return acc.result()


def run(tier, t0):
    cs = core.rotate(cases(tier) + invalid_cases() + [{"part": "groups"}])
    tot = core.merge(core.pmap(work, cs))
    return core.finish(
        PROP, tier, tot, t0,
        rule="role (pre/post/invariant) x callable kind (function, method, static, class method, property setter, async function, "
             "async method, constructor) x error form (none, Exception class, BaseException class, instance, BaseException "
             "instance, def factory, lambda factory, bound method, static/class method through the class) x for factories every "
             "subset of the nameable values (x, _ARGS, _KWARGS, self, result, OLD) + an unknown name + non-exception / "
             "BaseException returns; every case is a HISTORY of violate, satisfy, violate, violate in one context (identity of a "
             "raised instance must hold on every repetition); plus invalid error kinds x the three decorators at decorator "
             "creation; plus a chain of three classes whose overrides weaken the precondition (three groups, each with a factory, method and async method) x every truth "
             "assignment: no factory call when a group accepts, exactly one (and its exception raised) when all fail; non-trivial = every case",
        assumptions=["the generated message itself is judged by C06/C07/C20; here only its frame (location line + condition name)"],
        bounds={"cases": len(cs), "history_length": 4},
    )


def replay(path):
    data = json.load(open(path))["spec"]
    acc = core.Acc()
    if data.get("part") == "groups":
        check_groups(acc)
    elif "invalid" in data:
        run_invalid(data["invalid"], acc)
    else:
        run_case(data["case"], acc)
    for v in acc.violations[:5]:
        print("VIOLATION property={} replay={}".format(PROP, path))
        print(" ", v.symptom, v.detail[:400])
    return 1 if acc.violations else 0
