"""C02 - postconditions gate every normal return; results and exceptions pass unchanged."""
from .. import core, fam
from . import famcheck

PROP = "C02"
ROLES = ("body", "post", "sibling")


def specs(tier):
    out = []
    own_posts = (0, 1, 2) if tier == "quick" else (0, 1, 2, 3)
    base_q = [None, [(1, 0)], [(2, 1)]]
    base_t = base_q + [[(1, 0), (1, 1)], [(1, 1), None], [(0, 0)], [(2, 0), (2, 0)]]
    for kind in fam.KINDS:
        for is_async in ([False, True] if kind in fam.ASYNCABLE else [False]):
            for dbc in ([False, True] if kind != "func" else [False]):
                for base in ((base_q if tier == "quick" else base_t) if dbc else [None]):
                    for post in own_posts:
                        for pre, snap, inv in ((0, 0, 0), (1, 1, 1), (0, 1, 0)):
                            if snap and not post:
                                snap = 0
                            if inv and kind == "func":
                                inv = 0
                            levels = []
                            for b in base or []:
                                if b is None:
                                    levels.append({"defines": False})
                                else:
                                    levels.append({"pre": 1 if pre else 0, "post": b[0], "snap": b[1] if b[0] else 0, "defines": True})
                            levels.append({"pre": pre, "post": post, "snap": snap, "inv": inv, "defines": True})
                            for sibling in ((False, True) if kind in ("pset", "pdel") else (False,)):
                                idx = len(out)
                                out.append({"kind": kind, "is_async": is_async, "dbc": dbc, "levels": levels,
                                            "style": (("def", "lambda", "adef")[idx % 3] if is_async else ("def", "lambda")[idx % 2]),
                                            "err": ("default", "cls", "fac", "inst")[(idx // 2) % 4],
                                            "cap_alias": bool((idx // 8) % 2), "sibling_contract": sibling})
    return out


def params(spec):
    posts = fam.effective(spec)[2]
    kind = spec["kind"]
    if kind in ("init", "new"):
        modes = ["ret_obj", "raise_exc", "raise_base", "raise_kbi"]
    else:
        modes = fam.BODY_MODES
    for truth in fam.limited_truths(posts, max_full=5, max_falsy=2):
        for bm in modes:
            for mut in ("none", "append") + (("rebind",) if bm == "ret_obj" else ()):
                yield truth, bm, mut, "pos"


def symptom_of(exp, obs):
    if exp is None:
        if obs[0] == "sibling":
            return "contract_of_another_accessor_evaluated"
        return "extra_evaluation_" + obs[0]
    if obs is None:
        return "missing_evaluation_" + exp[0]
    if exp[0] != obs[0] or exp[1] != obs[1]:
        return "order_" + exp[0]
    if exp[0] == "post":
        for i, what in ((2, "result_not_the_returned_object"), (3, "argument_not_the_callers_object"),
                        (4, "argument_state_not_after_body"), (5, "OLD_value")):
            if exp[i] != obs[i]:
                return "post_saw_" + what
    return "event_payload_" + exp[0]


def nontrivial(spec, truth, body_mode, mut):
    return bool(truth)


def work(chunk):
    acc = core.Acc()
    for spec in chunk:
        famcheck.check_spec(PROP, spec, acc, ROLES, params, symptom_of, nontrivial)
    return acc.result()


def run(tier, t0):
    sp = core.rotate(specs(tier))
    tot = core.merge(core.pmap(work, sp))
    return core.finish(
        PROP, tier, tot, t0,
        rule="family F programs with 0-3 own and 0-4 inherited postconditions (+-pre/snapshot/invariant) x all truth assignments "
             "to the postconditions x 8 body outcomes (return of fresh object/None/0/[]/the mutated argument; raise of Exception, "
             "BaseException subclass, KeyboardInterrupt) x body mutation modes (none/append/rebind); compared: postconditions "
             "evaluated up to the first falsy one with result `is` the returned object, argument identity and post-body content, "
             "OLD; outcome at the caller (`is` the returned / raised object, or the error of the first falsy postcondition); "
             "non-trivial = at least one postcondition in effect",
        assumptions=["StopIteration raised by bodies is outside the alphabet (CPython rewrites it for coroutines)"],
        bounds={"programs": len(sp), "max_own_posts": max((0, 1, 2) if tier == "quick" else (0, 1, 2, 3)), "max_levels": 3},
    )


def replay(path):
    return famcheck.replay(PROP, path, ROLES, symptom_of)
