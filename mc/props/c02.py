"""C02 - postconditions gate every normal return; results and exceptions pass unchanged."""
from .. import core, fam
from . import famcheck

PROP = "C02"
ROLES = ("body", "post", "sibling")


def specs(tier):
    out = []
    own_posts = (0, 1, 2) if tier == "quick" else (0, 1, 2, 3)
    base_q = [None, [(1, 0)], [(2, 1)]]
    base_t = base_q + [[(1, 0), (1, 1)], [(1, 1), None], [(0, 0)], [(2, 0), (2, 0)]]
    for kind in fam.KINDS:
        for is_async in ([False, True] if kind in fam.ASYNCABLE else [False]):
            for dbc in ([False, True] if kind != "func" else [False]):
                for base in ((base_q if tier == "quick" else base_t) if dbc else [None]):
                    for post in own_posts:
                        for pre, snap, inv in ((0, 0, 0), (1, 1, 1), (0, 1, 0)):
                            if snap and not post:
                                snap = 0
                            if inv and kind == "func":
                                inv = 0
                            levels = []
                            for b in base or []:
                                if b is None:
                                    levels.append({"defines": False})
                                else:
                                    levels.append({"pre": 1 if pre else 0, "post": b[0], "snap": b[1] if b[0] else 0, "defines": True})
                            levels.append({"pre": pre, "post": post, "snap": snap, "inv": inv, "defines": True})
                            for sibling in ((False, True) if kind in ("pset", "pdel") else (False,)):
                                idx = len(out)
                                out.append({"kind": kind, "is_async": is_async, "dbc": dbc, "levels": levels,
                                            "style": (("def", "lambda", "adef")[idx % 3] if is_async else ("def", "lambda")[idx % 2]),
                                            "err": ("default", "cls", "fac", "inst")[(idx // 2) % 4],
                                            "cap_alias": bool((idx // 8) % 2), "sibling_contract": sibling, "err_base": idx % 5 == 3})
                                if post and not sibling and not inv:
                                    # a foreign functools.wraps decorator on top / in the middle of the leaf's stack (the meta-class must still
                                    # hand the inherited postconditions to the real checker)
                                    for foreign in (("top", "mid") if base else ("top",)):
                                        out.append(dict(out[-1], foreign=foreign))
                                    if snap:
                                        # OLD is read by the error factories only, no condition takes it
                                        out.append(dict(out[-1 - (2 if base else 1)], err="fac", post_old="none"))
    return out


def params(spec):
    posts = fam.effective(spec)[2]
    kind = spec["kind"]
    if kind in ("init", "new"):
        modes = ["ret_obj", "raise_exc", "raise_base", "raise_kbi"]
    else:
        modes = fam.BODY_MODES
    for truth in fam.limited_truths(posts, max_full=5, max_falsy=2):
        for bm in modes:
            for mut in ("none", "append") + (("rebind",) if bm == "ret_obj" else ()):
                yield truth, bm, mut, "pos"


def symptom_of(exp, obs):
    if exp is None:
        if obs[0] == "sibling":
            return "contract_of_another_accessor_evaluated"
        return "extra_evaluation_" + obs[0]
    if obs is None:
        return "missing_evaluation_" + exp[0]
    if exp[0] != obs[0] or exp[1] != obs[1]:
        return "order_" + exp[0]
    if exp[0] == "post":
        for i, what in ((2, "result_not_the_returned_object"), (3, "argument_not_the_callers_object"),
                        (4, "argument_state_not_after_body"), (5, "OLD_value")):
            if exp[i] != obs[i]:
                return "post_saw_" + what
    return "event_payload_" + exp[0]


def nontrivial(spec, truth, body_mode, mut):
    return bool(truth)


# ---------------------------------------------------------------------------------------------------------------
# pairs: the postcondition of one callable calls ANOTHER contracted callable that bears the same name (the accessors of one
# property; two functions made by one factory; a function re-defined under the same name): the inner return is gated too

PAIR_SRC = '''\
import icontract
LOG = []
T = {}
class E_outer(Exception): pass
class E_inner(Exception): pass
def _t(n):
    LOG.append(("post", n))
    return T.get(n, True)
def RUN(c):
    try:
        while True: c.send(None)
    except StopIteration as s:
        return s.value
# (the conditions are named functions: a violated lambda would be evaluated once more for its message)
def inner_post(result):
    return _t("inner")
def outer_post_reads_p(self):
    return self.p is not None and _t("outer")
class K:
    def __init__(self):
        self.v = 1
    @property
    @icontract.ensure(inner_post, error=E_inner)
    def p(self):
        LOG.append(("body", "get"))
        return self.v
    @p.setter
    @icontract.ensure(outer_post_reads_p, error=E_outer)
    def p(self, value):
        LOG.append(("body", "set"))
        self.v = value
    @p.deleter
    @icontract.ensure(outer_post_reads_p, error=E_outer)
    def p(self):
        LOG.append(("body", "del"))
def make(tag, other):
    def post(result):
        return (other is None or other() is not None) and _t(tag)
    @icontract.ensure(post, error=E_outer if other else E_inner)
    def g():
        LOG.append(("body", tag))
        return 1
    return g
g_inner = make("inner", None)
g_outer = make("outer", g_inner)
def amake(tag, other):
    async def post(result):
        return (other is None or (await other()) is not None) and _t(tag)
    @icontract.ensure(post, error=E_outer if other else E_inner)
    async def g():
        LOG.append(("body", tag))
        return 1
    return g
ag_inner = amake("inner", None)
ag_outer = amake("outer", ag_inner)
@icontract.ensure(inner_post, error=E_inner)
def h():
    LOG.append(("body", "inner"))
    return 1
h_first = h
def h_post(result):
    return h_first() is not None and _t("outer")
@icontract.ensure(h_post, error=E_outer)
def h():
    LOG.append(("body", "outer"))
    return 1
class M:
    @icontract.ensure(inner_post, error=E_inner)
    def m(self):
        LOG.append(("body", "inner"))
        return 1
def n_post(result):
    return M().m() is not None and _t("outer")
class N:
    @icontract.ensure(n_post, error=E_outer)
    def m(self):
        LOG.append(("body", "outer"))
        return 1
# ---- postconditions of an async function that return an awaitable which is not a coroutine
class Aw:
    def __init__(self, v): self.v = v
    def __await__(self):
        yield None
        return self.v
class AwIter:
    # an awaitable whose __await__ returns a plain iterator
    def __init__(self, v): self.v = v
    def __await__(self):
        return iter_then(self.v)
class iter_then:
    def __init__(self, v): self.v = v; self.done = False
    def __iter__(self): return self
    def __next__(self):
        if not self.done:
            self.done = True
            return None
        raise StopIteration(self.v)
async def coro_value(v):
    return v
def aw_post(result):
    LOG.append(("post", "aw"))
    return Aw(T.get("aw", True))
def awiter_post(result):
    LOG.append(("post", "aw"))
    return AwIter(T.get("aw", True))
def coro_post(result):
    LOG.append(("post", "aw"))
    return coro_value(T.get("aw", True))
@icontract.ensure(aw_post, error=E_outer)
async def af_aw():
    LOG.append(("body", "af"))
    return 1
@icontract.ensure(awiter_post, error=E_outer)
async def af_awiter():
    LOG.append(("body", "af"))
    return 1
@icontract.ensure(coro_post, error=E_outer)
async def af_coro():
    LOG.append(("body", "af"))
    return 1
# ---- a contract on top of a foreign decorator that changes the colour of the callable
import functools
def sync_facade(fn):
    @functools.wraps(fn)
    def w(*a, **k):
        return RUN(fn(*a, **k))
    return w
def async_facade(fn):
    @functools.wraps(fn)
    async def w(*a, **k):
        return fn(*a, **k)
    return w
def facade_post(result):
    LOG.append(("post", "facade", result))
    return T.get("facade", True)
@icontract.ensure(facade_post, error=E_outer)
@sync_facade
async def sf():
    LOG.append(("body", "sf"))
    return 1
@icontract.ensure(facade_post, error=E_outer)
@async_facade
def asf():
    LOG.append(("body", "asf"))
    return 1
'''
PAIRS = {
    "property_setter_reads_getter": lambda ns: setattr(ns["K"](), "p", 5),
    "property_deleter_reads_getter": lambda ns: delattr(ns["K"](), "p"),
    "factory_twins": lambda ns: ns["g_outer"](),
    "async_factory_twins": lambda ns: ns["RUN"](ns["ag_outer"]()),
    "redefined_function": lambda ns: ns["h"](),
    "same_named_methods_of_two_classes": lambda ns: ns["N"]().m(),
}


def check_pairs(acc):
    ns = core.load_source(PAIR_SRC, "c02p")
    try:
        for name, thunk in sorted(PAIRS.items()):
            for inner in (True, False):
                for outer in (True, False):
                    def go():
                        ns["T"].clear()
                        ns["T"].update({"inner": inner, "outer": outer})
                        del ns["LOG"][:]
                        try:
                            thunk(ns)
                            return "ret"
                        except BaseException as e:
                            return type(e).__name__
                    out = core.fresh_ctx_run(go)
                    log = list(ns["LOG"])
                    want = "E_inner" if not inner else ("E_outer" if not outer else "ret")
                    want_posts = [("post", "inner")] + ([("post", "outer")] if inner else [])
                    acc.case(("pair", name, inner, outer), True, len(log), out)
                    got_posts = [e for e in log if e[0] == "post"]
                    if out != want or got_posts != want_posts:
                        acc.violation(core.Violation(
                            PROP, "inner_return_not_gated", {"family": "pairs", "pair": name, "inner": inner, "outer": outer},
                            "{}: the postcondition of the outer callable calls the inner one (inner postcondition {}, outer {}): expected outcome {} and "
                            "evaluations {}, observed {} and {} (log {})".format(name, inner, outer, want, want_posts, out, got_posts, log),
                            spec={"pairs": name}, script=PAIR_SRC))
        # awaitable results of postconditions; contracts over colour-changing facades
        singles = {
            "async_post_returns_custom_awaitable": ("aw", lambda: ns["RUN"](ns["af_aw"]()), [("body", "af"), ("post", "aw")]),
            "async_post_returns_iterator_awaitable": ("aw", lambda: ns["RUN"](ns["af_awiter"]()), [("body", "af"), ("post", "aw")]),
            "async_post_returns_coroutine": ("aw", lambda: ns["RUN"](ns["af_coro"]()), [("body", "af"), ("post", "aw")]),
            "ensure_over_sync_facade_of_async_def": ("facade", lambda: ns["sf"](), [("body", "sf"), ("post", "facade", 1)]),
            "ensure_over_async_facade_of_def": ("facade", lambda: ns["RUN"](ns["asf"]()), [("body", "asf"), ("post", "facade", 1)]),
        }
        for name, (key, thunk, want_log) in sorted(singles.items()):
            for truth in (True, False):
                def go2():
                    ns["T"].clear()
                    ns["T"][key] = truth
                    del ns["LOG"][:]
                    try:
                        return ("ret", thunk())
                    except BaseException as e:
                        return ("exc", type(e).__name__)
                out = core.fresh_ctx_run(go2)
                log = list(ns["LOG"])
                want = ("ret", 1) if truth else ("exc", "E_outer")
                acc.case(("single", name, truth), True, len(log), out[0])
                if out != want or log != want_log:
                    acc.violation(core.Violation(
                        PROP, "postcondition_not_gating", {"family": "pairs", "pair": name, "outer": truth},
                        "{}: the postcondition's (awaited) value is {}: expected outcome {} and log {}, observed {} and {}".format(
                            name, truth, want, want_log, out, log), spec={"pairs": name}, script=PAIR_SRC))
        acc.sample({"pairs": sorted(PAIRS) + sorted(singles)}, cap=1)
    finally:
        core.unload_source(ns)


# ---------------------------------------------------------------------------------------------
# several bases: every base contributes its postconditions (and snapshots) to an overriding function, whatever its position
# among the bases and whether or not it has preconditions

BASES_SRC = '''\
import icontract
LOG = []
T = {}
def RUN(c):
    try:
        while True: c.send(None)
    except StopIteration as s:
        return s.value
def mk(role, name):
    if role == "post":
        def cond(result):
            LOG.append((role, name))
            return T.get(name, True)
    elif role == "postold":
        def cond(result, OLD):
            LOG.append(("post", name))
            return T.get(name, True) and OLD.s == "captured"
    elif role == "cap":
        def cond(self):
            LOG.append((role, name))
            return "captured"
    else:
        def cond(self):
            LOG.append((role, name))
            return T.get(name, True)
    cond.__name__ = name
    return cond
ERRS = {n: type("E_" + n, (Exception,), {}) for n in ("qa", "qm", "qs", "qd", "qp", "pa")}
class A(icontract.DBC):
    # preconditions and a postcondition
    @icontract.require(mk("pre", "pa"), error=ERRS["pa"])
    @icontract.ensure(mk("post", "qa"), error=ERRS["qa"])
    {adef} f(self):
        return 1
class M(icontract.DBC):
    # a postcondition only (no precondition: accepts every input)
    @icontract.ensure(mk("post", "qm"), error=ERRS["qm"])
    {adef} f(self):
        return 1
class S(icontract.DBC):
    # a snapshot with the postcondition reading it, no precondition
    @icontract.snapshot(mk("cap", "s"), name="s")
    @icontract.ensure(mk("postold", "qs"), error=ERRS["qs"])
    {adef} f(self):
        return 1
class P(icontract.DBC):
    # contract-less
    {adef} f(self):
        return 1
{classes}
'''
BASE_ORDERS = [("A", "M"), ("M", "A"), ("M", "S"), ("S", "M"), ("A", "S"), ("S", "A"), ("P", "M"), ("M", "P"), ("P", "A", "S"), ("M", "P", "S"),
               ("A", "M", "S"), ("S", "M", "A"), ("M", "A", "S")]
BASE_POSTS = {"A": ["qa"], "M": ["qm"], "S": ["qs"], "P": []}


def check_bases(acc):
    import itertools
    classes = []
    for i, order in enumerate(BASE_ORDERS):
        for own in (False, True):
            classes.append("class D{}{}({}):\n{}    {{adef}} f(self):\n        LOG.append(('body', 'D'))\n        return 1\n".format(
                i, "o" if own else "", ", ".join(order), "    @icontract.ensure(mk('post', 'qd'), error=ERRS['qd'])\n" if own else ""))
    for is_async in (False, True):
        src = BASES_SRC.replace("{classes}", "".join(classes)).replace("{adef}", "async def" if is_async else "def")
        ns = core.load_source(src, "c02b")
        try:
            for i, order in enumerate(BASE_ORDERS):
                for own in (False, True):
                    cls = "D{}{}".format(i, "o" if own else "")
                    posts = [q for b in order for q in BASE_POSTS[b]] + (["qd"] if own else [])

                    def run(truth):
                        def go():
                            ns["T"].clear()
                            obj = ns[cls]()
                            ns["T"].update(truth)
                            del ns["LOG"][:]
                            try:
                                r = obj.f()
                                if is_async:
                                    r = ns["RUN"](r)
                                return "ret"
                            except BaseException as e:  # noqa
                                return type(e).__name__
                        return core.fresh_ctx_run(go), list(ns["LOG"])
                    f0 = {"family": "several_bases", "bases": ",".join(order), "own_post": own, "is_async": is_async}
                    out, log = run({})
                    evaluated = [n for r, n in log if r == "post"]
                    acc.case(("bases", cls, is_async, ()), True, len(log), out)
                    if out != "ret" or sorted(evaluated) != sorted(posts) or (("S" in order) != (("cap", "s") in log)):
                        acc.violation(core.Violation(PROP, "inherited_postcondition_not_evaluated", f0,
                                                     "class {}({}).f() with all conditions true: outcome {}, postconditions evaluated {} expected each of {} "
                                                     "(snapshot captured: {}); log {}".format(cls, ", ".join(order), out, evaluated, posts, ("cap", "s") in log, log),
                                                     spec={"pairs": "bases"}, script=src))
                        continue
                    for q in posts:
                        out2, log2 = run({q: False})
                        acc.case(("bases", cls, is_async, (q,)), True, len(log2), out2)
                        if out2 != "E_" + q or ("body", "D") not in log2:
                            acc.violation(core.Violation(PROP, "violating_result_returned" if out2 == "ret" else "wrong_outcome", dict(f0, falsy=q),
                                                         "class {}({}).f() with postcondition {} falsy: expected E_{} after the body, got {}; log {}".format(
                                                             cls, ", ".join(order), q, q, out2, log2), spec={"pairs": "bases"}, script=src))
                            break
            acc.sample({"family": "several_bases", "orders": [list(o) for o in BASE_ORDERS], "async": is_async}, cap=1)
        finally:
            core.unload_source(ns)


def work(chunk):
    acc = core.Acc()
    for spec in chunk:
        if spec == "pairs":
            check_pairs(acc)
        elif spec == "bases":
            check_bases(acc)
        else:
            famcheck.check_spec(PROP, spec, acc, ROLES, params, symptom_of, nontrivial)
    return acc.result()


def run(tier, t0):
    sp = core.rotate(specs(tier)) + ["pairs", "bases"]
    tot = core.merge(core.pmap(work, sp))
    return core.finish(
        PROP, tier, tot, t0,
        rule="family F programs with 0-3 own and 0-4 inherited postconditions (+-pre/snapshot/invariant) x all truth assignments "
             "to the postconditions x 8 body outcomes (return of fresh object/None/0/[]/the mutated argument; raise of Exception, "
             "BaseException subclass, KeyboardInterrupt) x body mutation modes (none/append/rebind); compared: postconditions "
             "evaluated up to the first falsy one with result `is` the returned object, argument identity and post-body content, "
             "OLD; outcome at the caller (`is` the returned / raised object, or the error of the first falsy postcondition); "
             "every violating call is also made twice in one context (identical observations required); plus 6 pairs of same-named "
             "callables (accessors of one property, factory twins sync/async, a re-defined function, same-named methods of two classes) where the "
             "outer postcondition calls the inner callable x truth of (inner, outer) postcondition: the inner return is gated too; "
             "postconditions of async functions returning a custom awaitable / an iterator-based awaitable / a coroutine; ensure on top of a foreign "
             "decorator that turns an async def into a sync callable and vice versa (holds/falsy each); "
             "13 orders of 2-3 bases (with pre+post / post only / snapshot+post reading OLD / contract-less) x override with/without own postcondition x "
             "sync/async x (all true | each postcondition falsy): every base's postconditions and snapshots are in effect; "
             "non-trivial = at least one postcondition in effect",
        assumptions=["StopIteration raised by bodies is outside the alphabet (CPython rewrites it for coroutines)"],
        bounds={"programs": len(sp), "max_own_posts": max((0, 1, 2) if tier == "quick" else (0, 1, 2, 3)), "max_levels": 3},
    )


def replay(path):
    import json
    if "pairs" in json.load(open(path))["spec"]:
        acc = core.Acc()
        if json.load(open(path))["spec"]["pairs"] == "bases":
            check_bases(acc)
        else:
            check_pairs(acc)
        for v in acc.violations:
            print("VIOLATION property={} replay={}".format(PROP, path))
            print(" ", v.symptom, v.detail[:600])
        return 1 if acc.violations else 0
    return famcheck.replay(PROP, path, ROLES, symptom_of)
