"""C10 - contracts calling contracted code terminate; only own re-entry goes unchecked.

Call-graph programs: functions f, g, a DBC class K with an invariant, a method m, a constructor and two
instances; every *slot* (condition, capture, invariant, body) holds a script of 0-2 call actions.  All programs
with a bounded number of non-empty slots are enumerated (shortest first).  A monitor over the real, well-nested
event tree judges every call node (no prediction of which legal behaviour the library chooses)."""
import itertools
import json
import sys

from .. import core

PROP = "C10"

SRC = '''\
import contextvars
import icontract
CTXS = []
LOG = []
SCRIPTS = {}
FALSY = {"c": None}
BUDGET = {}
OBJ = {}
NEW = {"n": 0}
LABEL = {}
class Runaway(BaseException): pass
class Boom(Exception): pass
def RUN(c):
    try:
        while True: c.send(None)
    except StopIteration as s:
        return s.value
def label(o):
    if o is None:
        return None
    return LABEL.get(id(o), "?")
def do(act, self):
    if act == "f":
        LOG.append(("act", "f", None))
        try: f()
        finally: LOG.append(("act_end",))
    elif act in ("g", "g2", "h", "r", "p", "p2"):
        LOG.append(("act", act, None))
        try: {"g": g, "g2": g2, "h": h, "r": r, "p": p, "p2": p2}[act]()
        finally: LOG.append(("act_end",))
    elif act in ("self.m", "other.m"):
        me = self if self is not None else OBJ["A"]
        if act == "other.m":
            me = OBJ["B"] if me is not OBJ["B"] else OBJ["A"]
        LOG.append(("act", "m", label(me)))
        try: me.m()
        finally: LOG.append(("act_end",))
    elif act == "K()":
        LOG.append(("act", "K()", None))
        try: K()
        finally: LOG.append(("act_end",))
    elif act == "K2()":
        LOG.append(("act", "K2()", None))
        try: K2()
        finally: LOG.append(("act_end",))
    elif act == "ar":
        LOG.append(("act", "ar", None))
        try: RUN(ar())
        finally: LOG.append(("act_end",))
    elif act == "K!()":
        # a constructor whose body raises (not a contract violation); the caller handles the error
        LOG.append(("act", "K!()", None))
        try: K(True)
        except Boom: pass
        finally: LOG.append(("act_end",))
    elif act == "kept.m":
        # a call on the most recently constructed instance (possibly one whose constructor failed)
        me = KEEP[-1]
        LOG.append(("act", "m", label(me)))
        try: me.m()
        finally: LOG.append(("act_end",))
    elif act == "snap":
        # keep a copy of the current context (as asyncio.create_task, copy_context().run in a worker thread, ... do); the copy
        # outlives the call which made it
        CTXS.append(contextvars.copy_context())
    else:
        raise ValueError(act)
def slot(name, self=None):
    if len(LOG) > 6000:
        raise Runaway()
    LOG.append(("enter", name, label(self)))
    try:
        for act in SCRIPTS.get(name, ()):
            do(act, self)
    finally:
        LOG.append(("exit", name))
    return FALSY["c"] != name
def body_slot(name, self=None):
    if len(LOG) > 6000:
        raise Runaway()
    LOG.append(("enter", name, label(self)))
    try:
        if BUDGET.get(name, 0) > 0:
            BUDGET[name] -= 1
            for act in SCRIPTS.get(name, ()):
                do(act, self)
    finally:
        LOG.append(("exit", name))
class E_f_pre(Exception): pass
class E_f_post(Exception): pass
class E_g_pre(Exception): pass
class E_g_post(Exception): pass
class E_g2_pre(Exception): pass
class E_g2_post(Exception): pass
class E_h_post(Exception): pass
class E_r_pre(Exception): pass
class E_ar_pre(Exception): pass
class E_p_pre(Exception): pass
class E_p2_pre(Exception): pass
class E_m_pre(Exception): pass
class E_m_post(Exception): pass
class E_K_inv(Exception): pass
def f_pre(): return slot("f.pre")
def f_post(): return slot("f.post")
def f_cap(): return slot("f.cap")
def h_cap(): return slot("h.cap")
def h_post(): return slot("h.post")
def r_pre(): return slot("r.pre")
def ar_pre(): return slot("ar.pre")
def m_pre(self): return slot("m.pre", self)
def m_post(self): return slot("m.post", self)
def K_inv(self): return slot("K.inv", self)

@icontract.snapshot(f_cap, name="s")
@icontract.require(f_pre, error=E_f_pre)
@icontract.ensure(f_post, error=E_f_post)
def f():
    body_slot("f.body")

def make_g(tag, e_pre, e_post):
    # g and g2 are two distinct contracted functions sharing ONE code object (and so do their conditions)
    @icontract.require(lambda: slot(tag + ".pre"), error=e_pre)
    @icontract.ensure(lambda: slot(tag + ".post"), error=e_post)
    def g():
        body_slot(tag + ".body")
    return g
g = make_g("g", E_g_pre, E_g_post)
g2 = make_g("g2", E_g2_pre, E_g2_post)

# h has NO precondition: only a capture and a postcondition
@icontract.snapshot(h_cap, name="s")
@icontract.ensure(h_post, error=E_h_post)
def h():
    body_slot("h.body")

# r has a precondition ONLY (no postcondition, no capture)
@icontract.require(r_pre, error=E_r_pre)
def r():
    body_slot("r.body")

# p and p2: two contracted functions (two checkers) built around ONE and the same plain function object
def _plain():
    body_slot("p.body")
def p_pre(): return slot("p.pre")
def p2_pre(): return slot("p2.pre")
p = icontract.require(p_pre, error=E_p_pre)(_plain)
p2 = icontract.require(p2_pre, error=E_p2_pre)(_plain)

# ar: an ASYNC function with a precondition only
@icontract.require(ar_pre, error=E_ar_pre)
async def ar():
    body_slot("ar.body")

@icontract.invariant(K_inv, error=E_K_inv)
class K(icontract.DBC):
    def __init__(self, boom=False):
        NEW["n"] += 1
        LABEL[id(self)] = "N{}".format(NEW["n"])
        KEEP.append(self)
        body_slot("K.init", self)
        if boom:
            raise Boom()
    @icontract.require(m_pre, error=E_m_pre)
    @icontract.ensure(m_post, error=E_m_post)
    def m(self):
        body_slot("m.body", self)
class K2(K):
    # the sub-class constructor calls the base constructor FIRST and goes on afterwards: the object is still under construction
    def __init__(self):
        super().__init__()
        body_slot("K2.init", self)
KEEP = []
'''

CONTRACT_SLOTS = ["f.pre", "f.cap", "f.post", "g.pre", "g.post", "g2.pre", "g2.post", "h.cap", "h.post", "r.pre", "ar.pre", "m.pre", "m.post", "K.inv"]
BODY_SLOTS = ["f.body", "g.body", "g2.body", "h.body", "r.body", "ar.body", "m.body", "K.init", "K2.init"]
# (the slots of p / p2 take part only in the programs of their own, see programs())
P_SLOTS = ["p.pre", "p2.pre", "p.body"]
SLOTS = CONTRACT_SLOTS + BODY_SLOTS
ACTIONS = ["f", "g", "g2", "h", "r", "self.m", "other.m", "K()"]
EXT_ACTIONS = ACTIONS + ["K!()", "kept.m"]
ASYNC_ACTIONS = ["ar", "K2()"]
TOPS = ["f", "g", "g2", "h", "r", "ar", "self.m", "K()", "K2()", "p", "p2"]


def scripts(maxlen):
    out = []
    for n in range(1, maxlen + 1):
        out += [list(p) for p in itertools.product(ACTIONS, repeat=n)]
    return out


def programs(tier):
    """Programs ordered by total script length (shortest first)."""
    s1, s2 = scripts(1), scripts(2)
    progs = []
    for slot in SLOTS:
        for sc in s2:
            progs.append({slot: sc})
    # thorough: full 2-scripts over the first-generation slots and actions (f, g, g2, h, m, K); the later additions
    # (r, ar, K2) take part in the pairs with 1-scripts as in the quick tier
    late = ("r.pre", "r.body", "ar.pre", "ar.body", "K2.init")
    s2_core = [sc for sc in s2 if "r" not in sc]
    for a, b in itertools.combinations(SLOTS, 2):
        if tier == "thorough" and a not in late and b not in late:
            for sa in s2_core:
                for sb in s2_core:
                    progs.append({a: sa, b: sb})
        else:
            for sa in s1:
                for sb in s1:
                    progs.append({a: sa, b: sb})
            # one slot with a 2-script, the other with a 1-script: for pairs of contract slots of f/g/m/K only
            core_slots = ("f.pre", "f.post", "g.pre", "m.pre", "m.post", "K.inv", "m.body", "f.body")
            if a in core_slots and b in core_slots:
                acts = ("f", "g", "self.m", "other.m")
                for sa in [list(p) for p in itertools.product(acts, repeat=2)]:
                    for sb in [[x] for x in acts]:
                        progs.append({a: sa, b: sb})
                        progs.append({a: sb, b: sa})
    # failed constructions and later calls on the kept instance: scripts over the extended alphabet that use it
    ext2 = [list(p) for p in itertools.product(EXT_ACTIONS, repeat=2) if "K!()" in p or "kept.m" in p]
    ext3 = [list(p) for p in itertools.product(("K!()", "kept.m", "self.m", "f"), repeat=3) if "K!()" in p and "kept.m" in p]
    # (constructions inside *contract* slots combined with kept.m make fresh objects without bound in any semantics: a failing
    # construction is therefore scripted in body slots only, whose scripts run at most twice per run)
    for slot in SLOTS:
        for sc in ext2 + ext3:
            if slot in BODY_SLOTS or "K!()" not in sc:
                progs.append({slot: sc})
    for a, b in itertools.permutations(SLOTS, 2):
        if a not in BODY_SLOTS:
            continue
        for sa in (["K!()"], ["K!()", "kept.m"]):
            for sb in ([["kept.m"], ["self.m"], ["f"], ["K!()"]] if tier == "quick" else [[x] for x in EXT_ACTIONS]):
                if b in BODY_SLOTS or "K!()" not in sb:
                    progs.append({a: sa, b: sb})
    # the async precondition-only function and the two-level constructor: scripts that use them
    ext_async = [list(p) for p in itertools.product(ACTIONS + ASYNC_ACTIONS, repeat=2) if "ar" in p or "K2()" in p]
    for slot in SLOTS:
        for sc in [["ar"], ["K2()"]] + (ext_async if slot in ("ar.pre", "ar.body", "K2.init", "K.init", "K.inv", "m.body", "f.body", "r.body") or tier == "thorough" else []):
            if "K2()" in sc and slot == "K.inv":
                continue
            progs.append({slot: sc})
    for a, b in itertools.permutations(SLOTS, 2):
        if a in ("ar.pre", "ar.body", "K2.init"):
            for sa in ([["ar"], ["self.m"], ["f"], ["r"]] if a != "K2.init" else [["self.m"], ["f"], ["K()"]]):
                for sb in [["ar"], ["self.m"], ["f"]]:
                    progs.append({a: sa, b: sb})
    if tier == "thorough":
        for a, b, c in itertools.combinations([sl for sl in SLOTS if sl not in ("ar.pre", "ar.body", "K2.init")], 3):
            small = [[x] for x in ("f", "g", "r", "self.m", "other.m")]
            for sa in small:
                for sb in small:
                    for sc in small:
                        progs.append({a: sa, b: sb, c: sc})
    # two checkers around one plain function: scripts using p / p2
    p_acts = ("p", "p2", "f", "self.m")
    p_scripts = [[a] for a in p_acts] + [list(t) for t in itertools.product(p_acts, repeat=2) if "p" in t or "p2" in t]
    for slot in P_SLOTS + ["f.pre", "m.pre", "K.inv", "f.body", "m.body"]:
        for sc in p_scripts:
            if slot in P_SLOTS or "p" in sc or "p2" in sc:
                progs.append({slot: sc})
    for a, b in itertools.permutations(P_SLOTS + ["f.pre", "K.inv", "m.body"], 2):
        if a in P_SLOTS or b in P_SLOTS:
            for sa in [["p"], ["p2"], ["f"], ["self.m"]]:
                for sb in [["p"], ["p2"], ["f"], ["self.m"]]:
                    progs.append({a: sa, b: sb})
    # An invariant that constructs a new instance of its own class recurses without bound in *any* semantics that
    # checks distinct objects (every new object is a different one): such programs are not part of the property.
    progs = [p for p in progs if not ({"K()", "K!()", "K2()"} & set(p.get("K.inv", ())))]
    progs.sort(key=lambda p: sum(len(v) for v in p.values()))
    return progs


# ---------------------------------------------------------------------------------------------
# event tree


class Node:
    __slots__ = ("kind", "name", "obj", "children", "parent")

    def __init__(self, kind, name, obj, parent):
        self.kind, self.name, self.obj, self.parent = kind, name, obj, parent
        self.children = []


def build_tree(log):
    root = Node("root", None, None, None)
    cur = root
    for ev in log:
        if ev[0] == "act":
            n = Node("call", ev[1], ev[2], cur)
            cur.children.append(n)
            cur = n
        elif ev[0] == "enter":
            n = Node("slot", ev[1], ev[2], cur)
            cur.children.append(n)
            cur = n
        elif ev[0] in ("act_end", "exit"):
            cur = cur.parent if cur.parent is not None else cur
    return root


def ancestors(n):
    n = n.parent
    while n is not None:
        yield n
        n = n.parent


FUNC_CONTRACTS = {"f": {"f.pre", "f.cap", "f.post"}, "g": {"g.pre", "g.post"}, "g2": {"g2.pre", "g2.post"}, "h": {"h.cap", "h.post"}, "r": {"r.pre"}, "ar": {"ar.pre"},
                  "m": {"m.pre", "m.post"}, "p": {"p.pre"}, "p2": {"p2.pre"}}
FULL = {"f": ["f.pre", "f.cap", "f.body", "f.post"], "g": ["g.pre", "g.body", "g.post"], "g2": ["g2.pre", "g2.body", "g2.post"], "r": ["r.pre", "r.body"], "ar": ["ar.pre", "ar.body"],
        "h": ["h.cap", "h.body", "h.post"], "m": ["m.pre", "m.body", "m.post"], "p": ["p.pre", "p.body"], "p2": ["p2.pre", "p.body"]}
BARE = {"f": ["f.body"], "g": ["g.body"], "g2": ["g2.body"], "h": ["h.body"], "r": ["r.body"], "ar": ["ar.body"], "m": ["m.body"], "p": ["p.body"], "p2": ["p.body"]}


def judge_tree(root, complete):
    """Yield (symptom, detail) for every call node whose shape is not admissible. ``complete``: the run returned
    normally (so every call node is complete)."""
    stack = [root]
    while stack:
        n = stack.pop()
        stack.extend(n.children)
        if n.kind != "call":
            continue
        slots = [c for c in n.children if c.kind == "slot"]
        names = [c.name for c in slots]
        if n.name in ("f", "g", "g2", "h", "r", "ar", "m", "p", "p2"):
            own = FUNC_CONTRACTS[n.name]
            must = not any(a.kind == "slot" and a.name in own for a in ancestors(n))
            core_names = [x for x in names if x != "K.inv"]
            if must:
                if core_names != FULL[n.name]:
                    from_body = any(a.kind == "slot" and a.name.endswith(".body") for a in ancestors(n))
                    yield ("call_not_fully_checked", n, "call of {} on {} must be fully checked (no ancestor is an evaluation of its own "
                           "contracts) but its evaluations were {}".format(n.name, n.obj, core_names), {"target": n.name, "made_from_body": from_body})
            else:
                if core_names not in (FULL[n.name], BARE[n.name]):
                    yield ("reentrant_call_shape", n, "re-entrant call of {}: evaluations {} are neither the checked nor the bare shape".format(
                        n.name, core_names), {"target": n.name})
            if n.name == "m":
                o = n.obj
                susp = any((a.kind == "slot" and a.obj == o and a.name in ("K.inv", "K.init", "K2.init", "m.pre", "m.body", "m.post"))
                           or (a.kind == "call" and a.name == "m" and a.obj == o) for a in ancestors(n))
                inv_idx = [i for i, x in enumerate(names) if x == "K.inv"]
                if not susp:
                    ok = len(inv_idx) == 2 and inv_idx[0] == 0 and inv_idx[1] == len(names) - 1 and all(slots[i].obj == o for i in inv_idx)
                    if not ok:
                        yield ("invariants_not_checked_around_method", n, "m on {} (not nested in any operation of that object): "
                               "evaluations {}".format(o, names), {"target": "m"})
                else:
                    if len(inv_idx) not in (0, 2):
                        yield ("reentrant_invariant_shape", n, "m on {}: evaluations {}".format(o, names), {"target": "m"})
        elif n.name == "K!()":
            # the constructor body raised: nothing of that object may be evaluated afterwards within the construction
            if names[:1] != ["K.init"] or any(x == "K.inv" and sl.obj == slots[0].obj for x, sl in zip(names[1:], slots[1:])):
                yield ("constructor_shape", n, "K!() (constructor body raises): evaluations {}".format(list(zip(names, [s.obj for s in slots]))), {"target": "K!()"})
        elif n.name == "K2()":
            # base constructor body, then the sub-class part, then the invariant exactly once at the very end, all on one object
            own = [(x, sl) for x, sl in zip(names, slots) if sl.obj == slots[0].obj]
            own_names = [x for x, _ in own]
            if names[:1] != ["K.init"] or own_names.count("K.inv") != 1 or own_names[-1] != "K.inv" or "K2.init" not in own_names \
                    or own_names.index("K2.init") < own_names.index("K.init"):
                yield ("constructor_shape", n, "K2(): evaluations {}".format(list(zip(names, [s.obj for s in slots]))), {"target": "K2()"})
        elif n.name == "K()":
            if names[:1] != ["K.init"] or names.count("K.inv") != 1 or names[-1] != "K.inv" or slots[-1].obj != slots[0].obj:
                yield ("constructor_shape", n, "K(): evaluations {}".format(list(zip(names, [s.obj for s in slots]))), {"target": "K()"})


def run_one(ns, prog, top, falsy=None):
    ns["SCRIPTS"].clear()
    ns["SCRIPTS"].update(prog)
    ns["FALSY"]["c"] = falsy
    ns["BUDGET"].clear()
    ns["BUDGET"].update({b: 2 for b in BODY_SLOTS + ["p.body"]})
    del ns["LOG"][:]
    del ns["KEEP"][2:]
    ns["NEW"]["n"] = 0
    exc = None
    try:
        ns["do"](top, None)
    except BaseException as e:
        exc = e
    return list(ns["LOG"]), exc


_NS = {}


def get_ns():
    if "ns" not in _NS:
        ns = core.load_source(SRC, "c10")
        # two long-lived instances A and B, built with empty scripts
        a = core.fresh_ctx_run(ns["K"])
        b = core.fresh_ctx_run(ns["K"])
        ns["OBJ"]["A"], ns["OBJ"]["B"] = a, b
        ns["LABEL"][id(a)], ns["LABEL"][id(b)] = "A", "B"
        _NS["ns"] = ns
    return _NS["ns"]


def check_program(prog, acc):
    ns = get_ns()
    key0 = json.dumps(prog, sort_keys=True)
    feats0 = {"slots": ",".join(sorted(prog)), "nslots": len(prog), "total_len": sum(len(v) for v in prog.values())}
    for top in TOPS:
        log, exc = core.fresh_ctx_run(run_one, ns, prog, top)
        acc.case((key0, top, None), True, len(log), type(exc).__name__ if exc else "ok")

        def viol(sym, detail, extra=None, falsy=None):
            f = dict(feats0, top=top, falsy=falsy)
            if extra:
                f.update(extra)
            script = SRC + "\n# program: SCRIPTS = {!r}; top-level action: {!r}; falsy condition: {!r}\n".format(prog, top, falsy) + \
                "if __name__ == '__main__':\n    OBJ['A'] = K(); OBJ['B'] = K(); LABEL[id(OBJ['A'])] = 'A'; LABEL[id(OBJ['B'])] = 'B'\n" \
                "    SCRIPTS.update({!r}); FALSY['c'] = {!r}; BUDGET.update({!r}); del LOG[:]\n".format(prog, falsy, {b: 2 for b in BODY_SLOTS}) + \
                "    try:\n        do({!r}, None)\n    except BaseException as e:\n        print('raised', type(e).__name__)\n".format(top) + \
                "    for ev in LOG: print(ev)\n"
            acc.violation(core.Violation(PROP, sym, f, detail, spec={"prog": prog, "top": top, "falsy": falsy}, script=script))

        if exc is not None:
            if isinstance(exc, (RecursionError, ns["Runaway"])):
                viol("nontermination", "all conditions true, top-level {}: {} after {} events".format(top, type(exc).__name__, len(log)))
            else:
                viol("unexpected_exception", "all conditions true, top-level {}: {!r}".format(top, exc))
            continue
        root = build_tree(log)
        bad = False
        for sym, node, detail, extra in judge_tree(root, True):
            viol(sym, detail + "\n log=" + str(log[:60]), extra)
            bad = True
            break
        if bad:
            continue
        # falsy runs: a condition that is evaluated in a must-check position must surface as its error
        evaluated_must = set()
        stack = [root]
        while stack:
            n = stack.pop()
            stack.extend(n.children)
            if n.kind == "slot" and n.name in ("f.pre", "f.post", "g.pre", "g.post", "g2.pre", "g2.post", "h.post", "r.pre", "ar.pre", "m.pre", "m.post", "K.inv", "p.pre", "p2.pre"):
                call = n.parent
                own = FUNC_CONTRACTS.get(call.name, set()) if call is not None and call.kind == "call" else set()
                # evaluated as part of a checked call: the error has to propagate to the top (nobody catches)
                evaluated_must.add(n.name)
        for c in sorted(evaluated_must):
            log2, exc2 = core.fresh_ctx_run(run_one, ns, prog, top, c)
            acc.case((key0, top, c), True, len(log2), type(exc2).__name__ if exc2 else "ok")
            want = "E_" + c.replace(".", "_")
            if exc2 is None or type(exc2).__name__ != want:
                if isinstance(exc2, (RecursionError, ns["Runaway"])):
                    viol("nontermination", "condition {} falsy, top-level {}: {}".format(c, top, type(exc2).__name__), falsy=c)
                else:
                    viol("violation_lost", "condition {} is evaluated in the all-true run; with it falsy the run must end with {} but got {!r}".format(
                        c, want, exc2), falsy=c)


# ---------------------------------------------------------------------------------------------
# contexts copied while a contract / an operation is in progress and used after it has finished

REENTRIES = [None, ("K.inv", ["self.m"]), ("m.pre", ["self.m"]), ("f.pre", ["f"]), ("f.post", ["f", "self.m"]), ("g.post", ["g"]), ("r.pre", ["r"])]
LATER_TOPS = ["self.m", "f", "g", "r", "K()", "kept.m"]


def copied_context_cases():
    out = []
    for snap_slot in SLOTS:
        for re in REENTRIES:
            prog = {snap_slot: ["snap"]}
            if re is not None:
                if re[0] == snap_slot:
                    prog[snap_slot] = ["snap"] + re[1]
                else:
                    prog[re[0]] = list(re[1])
            for top1 in TOPS:
                for top2 in LATER_TOPS:
                    out.append((prog, top1, top2))
    return out


def check_copied_context(case, acc):
    ns = get_ns()
    prog, top1, top2 = case
    key0 = json.dumps(prog, sort_keys=True)

    def first():
        del ns["CTXS"][:]
        log, exc = run_one(ns, prog, top1)
        return log, exc, list(ns["CTXS"])
    log1, exc1, ctxs = core.fresh_ctx_run(first)
    if not ctxs or isinstance(exc1, (RecursionError, ns["Runaway"])):
        return  # the first run does not reach the slot which copies the context (or is judged by the main family)
    feats = {"slots": ",".join(sorted(prog)), "nslots": len(prog), "total_len": sum(len(v) for v in prog.values()), "top": top1,
             "later_top": top2, "family": "copied_context", "falsy": None}
    for ci, ctx in enumerate(ctxs[:2]):
        def later():
            # the same program, run after the first run has finished, inside the context copied during the first run
            ns["BUDGET"].clear()
            ns["BUDGET"].update({b: 2 for b in BODY_SLOTS})
            del ns["LOG"][:]
            exc = None
            try:
                ns["do"](top2, None)
            except BaseException as e:
                exc = e
            return list(ns["LOG"]), exc
        log2, exc2 = ctx.run(later)
        acc.case((key0, top1, top2, ci, "copied"), True, len(log2), type(exc2).__name__ if exc2 else "ok")
        script = SRC + "\n# program: SCRIPTS = {!r}; first {!r} (a slot copies the context), afterwards {!r} inside the copied context\n".format(prog, top1, top2)
        spec = {"copied": True, "prog": prog, "top": top1, "later_top": top2}
        if exc2 is not None:
            sym = "nontermination" if isinstance(exc2, (RecursionError, ns["Runaway"])) else "unexpected_exception"
            acc.violation(core.Violation(PROP, sym, feats, "after {} finished, {} inside the context copied in slot {}: {!r} after {} events".format(
                top1, top2, [k for k, v in prog.items() if "snap" in v][0], exc2, len(log2)), spec=spec, script=script))
            continue
        for sym, node, detail, extra in judge_tree(build_tree(log2), True):
            acc.violation(core.Violation(PROP, sym, dict(feats, **(extra or {})),
                                         "after {} finished, {} inside the context copied during it: {}\n log={}".format(top1, top2, detail, log2[:60]),
                                         spec=spec, script=script))
            break


# ---------------------------------------------------------------------------------------------
# a singleton checked through __new__ (no constructor): its invariant or its methods may obtain the object through the constructor

SINGLETON_SRC = '''\
import icontract
LOG = []
MODE = {"inv": None, "body": None, "budget": 0}
class Runaway(BaseException): pass
def act(what):
    if len(LOG) > 3000:
        raise Runaway()
    if what == "S()":
        S()
    elif what == "m":
        S().m()
    elif what == "m,m":
        S().m()
        S().m()
def inv(self):
    LOG.append("inv")
    act(MODE["inv"])
    return True
@icontract.invariant(inv)
class S(icontract.DBC):
    _it = None
    def __new__(cls):
        if S._it is None:
            S._it = super().__new__(cls)
        return S._it
    def m(self):
        LOG.append("m.body")
        if MODE["budget"] > 0:
            MODE["budget"] -= 1
            act(MODE["body"])
        return 1
'''


def check_singleton(acc):
    ns = core.load_source(SINGLETON_SRC, "c10s")
    try:
        for inv_act in (None, "S()", "m", "m,m"):
            for body_act in (None, "S()", "m"):
                for top in ("S()", "m", "m,m"):
                    for warm in (False, True):
                        def go():
                            ns["S"]._it = None
                            ns["MODE"].update({"inv": None, "body": None, "budget": 0})
                            if warm:
                                ns["S"]()   # the instance exists already
                            ns["MODE"].update({"inv": inv_act, "body": body_act, "budget": 2})
                            del ns["LOG"][:]
                            try:
                                ns["act"](top)
                                return "ret"
                            except BaseException as e:  # noqa
                                return type(e).__name__
                        out = core.fresh_ctx_run(go)
                        log = list(ns["LOG"])
                        acc.case(("singleton", inv_act, body_act, top, warm), True, len(log), out)
                        feats = {"family": "singleton", "inv_action": inv_act, "body_action": body_act, "top": top, "warm": warm,
                                 "slots": "singleton", "nslots": 0, "total_len": 0, "falsy": None}
                        script = SINGLETON_SRC + "\n# invariant does {!r}, body does {!r}, top-level {!r}, instance exists before: {}\n".format(inv_act, body_act, top, warm)
                        if out != "ret":
                            acc.violation(core.Violation(PROP, "nontermination" if out in ("RecursionError", "Runaway") else "unexpected_exception", feats,
                                                         "singleton without constructor (invariant does {!r}, method body does {!r}): top-level {!r} ended with {} "
                                                         "after {} events".format(inv_act, body_act, top, out, len(log)), spec={"singleton": [inv_act, body_act, top, warm]}, script=script))
                        elif "inv" not in log:
                            acc.violation(core.Violation(PROP, "call_not_fully_checked", feats,
                                                         "singleton: top-level {!r} evaluated no invariant at all: log {}".format(top, log),
                                                         spec={"singleton": [inv_act, body_act, top, warm]}, script=script))
        acc.sample({"family": "singleton"}, cap=1)
    finally:
        core.unload_source(ns)


RECNEW_SRC = '''\
import collections
import icontract
LOG = []
BAD = {"depth": None}
def inv(self):
    LOG.append(("inv", self.depth))
    return self.depth != BAD["depth"]
@icontract.invariant(inv)
class N(STYLE_BASE):
    STYLE_BODY
def build(cls, depth, width):
    # a __new__ which creates further instances of the same class before / after / around creating its own
    kids = tuple(cls(depth - 1, width) for _ in range(width)) if depth > 0 and ORDER != "after" else ()
    obj = MAKE
    if depth > 0 and ORDER == "after":
        kids = tuple(cls(depth - 1, width) for _ in range(width))
        LATE
    return obj
'''
RECNEW_STYLES = {
    "plain": ("icontract.DBC", "def __new__(cls, depth, width):\n        return build(cls, depth, width)",
              "object.__new__(cls); obj.depth = depth; obj.kids = kids", "obj.kids = kids"),
    "namedtuple": ("collections.namedtuple('NBase', 'depth kids')", "__slots__ = ()\n    def __new__(cls, depth, width):\n        return build(cls, depth, width)",
                   "tuple.__new__(cls, (depth, kids))", "pass"),
}


def check_recursive_new(acc):
    """Instances of the same class created inside the __new__ of another instance are objects of their own: each is checked."""
    for style, (base, body, make, late) in RECNEW_STYLES.items():
        for order in ("before", "after"):
            if style == "namedtuple" and order == "after":
                continue  # an immutable record can not take its children later
            src = (RECNEW_SRC.replace("STYLE_BASE", base).replace("STYLE_BODY", body).replace("MAKE", make).replace("LATE", late)
                   .replace("ORDER", repr(order)))
            ns = core.load_source(src, "c10n")
            try:
                for depth, width in ((0, 1), (1, 1), (1, 2), (2, 1), (2, 2)):
                    n_at = {d: width ** (depth - d) for d in range(depth + 1)}  # instances per level
                    for bad in [None] + list(range(depth + 1)):
                        def go():
                            ns["BAD"]["depth"] = bad
                            del ns["LOG"][:]
                            try:
                                ns["N"](depth, width)
                                return "ret"
                            except BaseException as e:  # noqa
                                return type(e).__name__
                        out = core.fresh_ctx_run(go)
                        log = list(ns["LOG"])
                        acc.case(("recursive_new", style, order, depth, width, bad), True, len(log), out)
                        feats = {"family": "recursive_new", "style": style, "order": order, "depth": depth, "width": width, "bad": bad,
                                 "slots": "recursive_new", "nslots": 0, "total_len": 0, "falsy": bad}
                        script = src + "\n# N({}, {}) with the invariant falsy at depth {}\n".format(depth, width, bad)
                        problem = None
                        if bad is None:
                            counts = {d: sum(1 for e in log if e == ("inv", d)) for d in n_at}
                            if out != "ret":
                                problem = ("unexpected_exception", "ended with {}".format(out))
                            elif any(counts[d] < n_at[d] for d in n_at):
                                problem = ("call_not_fully_checked", "instances per depth {} but invariant evaluations per depth {}".format(n_at, counts))
                        elif out != "ViolationError":
                            problem = ("call_not_fully_checked", "an instance at depth {} violates the invariant, the construction ended with {} (log {})".format(bad, out, log))
                        if problem:
                            acc.violation(core.Violation(PROP, problem[0], feats, "recursive __new__ ({}, children created {} the instance itself): N({}, {}): {}".format(
                                style, order, depth, width, problem[1]), spec={"recursive_new": [style, order, depth, width, bad]}, script=script))
            finally:
                core.unload_source(ns)
    acc.sample({"family": "recursive_new"}, cap=1)


def work(chunk):
    acc = core.Acc()
    old = sys.getrecursionlimit()
    sys.setrecursionlimit(600)
    try:
        for prog in chunk:
            if prog == "singleton":
                check_singleton(acc)
            elif prog == "recursive_new":
                check_recursive_new(acc)
            elif isinstance(prog, tuple):
                check_copied_context(prog, acc)
            else:
                check_program(prog, acc)
        if chunk and isinstance(chunk[0], dict):
            acc.sample({"program": chunk[0], "tops": TOPS})
    finally:
        sys.setrecursionlimit(old)
    return acc.result()


def run(tier, t0):
    progs = programs(tier)
    copied = copied_context_cases()
    tot = core.merge(core.pmap(work, core.rotate(progs + copied) + ["singleton", "recursive_new"]))
    return core.finish(
        PROP, tier, tot, t0,
        rule="call-graph programs over f (pre/capture/post), g and g2 (pre/post, made by one factory: shared code objects), h (capture/post "
             "only, no precondition), r (precondition only), async ar (precondition only), class K(DBC) with invariant, method m (pre/post), "
             "constructor, instances A and B: every slot (14 contract slots, 9 body slots; K2(K) has a constructor that calls the base constructor first and continues) may hold a script of 0-2 actions from "
             "{f(), g(), g2(), h(), r(), self.m(), other.m(), K()}, plus scripts using {K!() = a constructor whose body raises and whose error "
             "is handled, kept.m() = a call on the most recently constructed instance}; enumerated: every program with <= 2 (quick) / 3 (thorough) non-empty slots, "
             "x 7 top-level actions x (all true | each evaluated condition falsy). A monitor checks on the real event tree that "
             "the run terminates and that every call whose ancestors contain no evaluation of its own contracts (resp. no "
             "operation on the same object) is fully checked; re-entrant calls may be checked or bare; non-trivial = every program. " +
             "Plus {} copied-context cases: a slot (each of the 23) copies the current context while its call is in progress (as create_task / "
             "copy_context().run in a worker do), with one of 7 re-entering scripts elsewhere; after the first top-level action has finished, "
             "each of 5 top-level actions runs inside the copied context and is judged as a fresh top-level call (terminates, fully checked); "
             "plus 72 singleton programs (class checked through __new__, no constructor; invariant and method body obtain the object through the constructor "
             "or call its method): termination; plus classes without a constructor whose __new__ creates further instances of the same class "
             "(plain objects and named tuples, children made before / after the instance itself, depth <= 2, width <= 2, invariant falsy at each depth): "
             "every instance is checked".format(len(copied)),
        assumptions=["body scripts run at most twice per run (the program's own recursion is finite); contract scripts are unguarded",
                     "recursion limit 600 frames, 6000 events as the runaway detector"],
        bounds={"programs": len(progs), "max_nonempty_slots": 2 if tier == "quick" else 3, "max_script_len": 2},
    )


def replay(path):
    data = json.load(open(path))["spec"]
    acc = core.Acc()
    sys.setrecursionlimit(600)
    if data.get("singleton"):
        check_singleton(acc)
    elif data.get("recursive_new"):
        check_recursive_new(acc)
    elif data.get("copied"):
        check_copied_context((data["prog"], data["top"], data["later_top"]), acc)
    else:
        check_program(data["prog"], acc)
    for v in acc.violations[:5]:
        print("VIOLATION property={} replay={}".format(PROP, path))
        print(" ", v.symptom, v.detail[:400])
    return 1 if acc.violations else 0
