"""C05 - contracts observe the same argument values the body receives.

Enumerates every signature shape (positional-only / positional-or-keyword / *args / keyword-only / **kwargs, every
legal placement of defaults, with and without a leading ``self``) and, for each, every call shape that
CPython's own call binding accepts within the bounds (a bare function with the same parameter list is the oracle)."""
import inspect
import itertools
import json

from .. import core

PROP = "C05"

PO, PK, KO = ["a", "b"], ["c", "d"], ["e", "g"]


def signatures(tier):
    max_named = 3 if tier == "quick" else 4
    out = []
    for n1 in range(0, 3):
        for n2 in range(0, 3):
            for n3 in range(0, 3):
                if n1 + n2 + n3 > max_named:
                    continue
                for ndef in range(0, n1 + n2 + 1):
                    for kodef in itertools.product([False, True], repeat=n3):
                        for var in (False, True):
                            for varkw in (False, True):
                                kinds = [False, True]
                                if n1 + n2 + n3 <= (1 if tier == "quick" else 2):
                                    kinds += ["cls", "static", "async"]  # class method, static method, async function
                                for with_self in kinds:
                                    out.append({"po": n1, "pk": n2, "ko": n3, "ndef": ndef, "kodef": list(kodef),
                                                "var": var, "varkw": varkw, "self": with_self})
    return out


def sig_text(s):
    """Return (parameter list text, named params in order, names with defaults)."""
    pos = PO[: s["po"]] + PK[: s["pk"]]
    ndef = s["ndef"]
    defaulted = set(pos[len(pos) - ndef:]) if ndef else set()
    parts = []
    if s["self"] is True:
        parts.append("self")
    elif s["self"] == "cls":
        parts.append("cls")
    for i, n in enumerate(PO[: s["po"]]):
        parts.append("{}=D_{}".format(n, n) if n in defaulted else n)
    if s["po"]:
        parts.append("/")
    for n in PK[: s["pk"]]:
        parts.append("{}=D_{}".format(n, n) if n in defaulted else n)
    if s["var"]:
        parts.append("*args")
    elif s["ko"]:
        parts.append("*")
    for n, d in zip(KO[: s["ko"]], s["kodef"]):
        parts.append("{}=D_{}".format(n, n) if d else n)
        if d:
            defaulted.add(n)
    if s["varkw"]:
        parts.append("**kwargs")
    named = pos + KO[: s["ko"]]
    return ", ".join(parts), named, defaulted


PRELUDE = '''\
import icontract
LOG = []
T = {"q": True}
class Obj:
    def __init__(self, tag): self.tag = tag
    def __repr__(self): return "<" + self.tag + ">"
R = Obj("R")
class Viol(Exception): pass
'''


def render(s, unknown=None, cdef=False):
    params, named, defaulted = sig_text(s)
    w = []
    w.append(PRELUDE)
    # the default objects compare equal to everything (like unittest.mock.ANY): a default is recognized by identity, not by ==
    w.append("class AnyObj(Obj):\n    def __eq__(self, other): return True\n    def __ne__(self, other): return False\n    def __hash__(self): return 7\n")
    for n in PO + PK + KO:
        w.append("D_{0} = AnyObj('D_{0}')\n".format(n))
    # cdef: the contract callables declare *defaults* for the parameters they ask for; the call's value must win
    # cdef: False | True (defaults) | "kwonly" (the contract callables declare the names as KEYWORD-ONLY parameters) | "kwonly_default"
    dflt = "=WRONG" if cdef in (True, "kwonly_default") else ""
    star = "*, " if cdef in ("kwonly", "kwonly_default") else ""
    w.append("WRONG = Obj('WRONG')\n")
    for n in named:
        w.append("def c_{0}({2}{0}{1}):\n    LOG.append(('pre', '{0}', id({0})))\n    return True\n".format(n, dflt, star))
    w.append("def c_args(_ARGS):\n    LOG.append(('args', type(_ARGS).__name__, tuple(id(v) for v in _ARGS)))\n    return True\n")
    w.append("def c_kwargs(_KWARGS):\n    LOG.append(('kwargs', type(_KWARGS).__name__, tuple(sorted((k, id(v)) for k, v in _KWARGS.items()))))\n    return True\n")
    allp = star + ", ".join(n + dflt for n in named)
    dct = "{" + ", ".join("'{0}': id({0})".format(n) for n in named) + "}"
    if named:
        w.append("def cap({}):\n    LOG.append(('cap', {}))\n    return R\n".format(allp, dct))
    else:
        w.append("def cap():\n    LOG.append(('cap', {}))\n    return R\n")
    w.append("def q({}):\n    LOG.append(('post', {}, id(result), id(OLD.snap)))\n    return T['q']\n".format(
        ", ".join(["result", "OLD"] + (["*"] if star and named else []) + [n + dflt for n in named]), dct))
    w.append("def ef({}):\n    LOG.append(('errfac', {}, id(result), id(OLD.snap), tuple(id(v) for v in _ARGS), "
             "tuple(sorted((k, id(v)) for k, v in _KWARGS.items()))))\n    return Viol('q')\n".format(
                 ", ".join(["result", "OLD", "_ARGS", "_KWARGS"] + (["*"] if star and named else []) + [n + dflt for n in named]), dct))
    if unknown:
        w.append("def c_unknown({0}):\n    LOG.append(('pre_unknown', '{0}', id({0})))\n    return True\n".format(unknown))
    in_class = s["self"] in (True, "cls", "static")
    ind = "    " if in_class else ""
    decos = []
    if s["self"] == "cls":
        decos.append("@classmethod")
    elif s["self"] == "static":
        decos.append("@staticmethod")
    if unknown:
        decos.append("@icontract.require(c_unknown)")
    decos.append("@icontract.snapshot(cap, name='snap')")
    decos.append("@icontract.require(c_kwargs)")
    decos.append("@icontract.require(c_args)")
    for n in reversed(named):
        decos.append("@icontract.require(c_{})".format(n))
    decos.append("@icontract.ensure(q, error=ef)")
    # the oracle: a bare function with the very same parameter list; CPython's own call binding decides which call shapes are
    # legal and which object every parameter receives (inspect.Signature.bind of 3.12 wrongly rejects f(a=1) for
    # ``def f(a=D, /, **kwargs)``)
    w.append("def spy({}):\n    return {}\n".format(params, "{" + ", ".join("'{0}': {0}".format(n) for n in named) + "}"))
    if in_class:
        w.append("class K:\n")
    for d in decos:
        w.append(ind + d + "\n")
    w.append(ind + "{}def f({}):\n".format("async " if s["self"] == "async" else "", params))
    w.append(ind + "    LOG.append(('body', {}, tuple(id(v) for v in {}), tuple(sorted((k, id(v)) for k, v in {}.items()))))\n".format(
        dct, "args" if s["var"] else "()", "kwargs" if s["varkw"] else "{}"))
    w.append(ind + "    return R\n")
    return "".join(w), named, defaulted


def call_shapes(s, named):
    """All (npos, keyword-name tuple) within the bounds; the caller filters with a call of the bare spy function."""
    npos_max = s["po"] + s["pk"] + 2
    kw_candidates = PO[: s["po"]] + PK[: s["pk"]] + KO[: s["ko"]] + ["z"]
    for npos in range(0, npos_max + 1):
        for r in range(0, len(kw_candidates) + 1):
            for kws in itertools.combinations(kw_candidates, r):
                yield npos, kws


def check_sig(s, acc, unknown=None, cdef=False):
    src, named, defaulted = render(s, unknown, cdef)
    ns = core.fresh_ctx_run(core.load_source, src, "c05")
    try:
        obj = None
        if s["self"] is True:
            obj = ns["K"]()
            func = obj.f
            raw = ns["K"].__dict__["f"]
        elif s["self"] in ("cls", "static"):
            func = ns["K"].f
            raw = ns["K"].__dict__["f"].__func__
        elif s["self"] == "async":
            afunc = ns["f"]
            func = lambda *a, **k: core.run_coro(afunc(*a, **k))
            raw = afunc
        else:
            func = ns["f"]
            raw = func
        # the signature of the *original* function is what Python binds against
        orig = inspect.unwrap(raw)
        sig = inspect.signature(orig)
        selfargs = (obj,) if s["self"] is True else ((ns["K"],) if s["self"] == "cls" else ())
        Obj = ns["Obj"]
        key0 = json.dumps(s, sort_keys=True) + "|" + str(unknown) + "|" + str(cdef)
        shapes = [(npos, kws, False) for npos, kws in call_shapes(s, named)]
        if cdef in (True, "kwonly_default"):
            # the contract callables have defaults of their own: also calls whose every argument is None (a value which must not
            # be mistaken for "not supplied")
            shapes += [(npos, kws, True) for npos, kws in call_shapes(s, named) if npos or kws]
        for npos, kws, none_values in shapes:
            pos = tuple(None if none_values else Obj("P{}".format(i)) for i in range(npos))
            kw = {k: (None if none_values else Obj("K_" + k)) for k in kws}
            try:
                bound = ns["spy"](*(selfargs + pos), **kw)
            except TypeError:
                continue
            want = {n: id(bound[n]) for n in named}
            want_args = tuple(id(v) for v in selfargs + pos)  # for a method the receiver is the first positional
            want_kwargs = tuple(sorted((k, id(v)) for k, v in kw.items()))
            feats = {"po": s["po"], "pk": s["pk"], "ko": s["ko"], "ndef": s["ndef"], "var": s["var"], "varkw": s["varkw"],
                     "self": s["self"], "npos": npos, "kws": ",".join(kws), "unknown": unknown, "contract_params_have_defaults": cdef,
                     "surplus_positional": npos > s["po"] + s["pk"], "none_values": none_values,
                     "kw_named_like_posonly": any(k in PO[: s["po"]] for k in kws)}
            for qtruth in (True, False):
                ns["T"]["q"] = qtruth
                del ns["LOG"][:]
                exc = None
                try:
                    r = core.fresh_ctx_run(func, *pos, **kw)
                except Exception as e:
                    exc = e
                log = list(ns["LOG"])
                acc.case((key0, npos, kws, qtruth, none_values), nontrivial=bool(named) or npos > 0 or bool(kws), events=len(log),
                         outcome=(type(exc).__name__ if exc else "ret"))
                bad = None
                provides_unknown = unknown is not None and unknown in kw
                if unknown is not None and not provides_unknown:
                    # must fail with a TypeError naming it; neither condition nor body may run with a wrong value
                    if not isinstance(exc, TypeError) or unknown not in str(exc):
                        bad = ("missing_name_not_reported", "expected TypeError naming {!r}, got {!r}".format(unknown, exc))
                    elif any(ev[0] in ("pre_unknown", "body") for ev in log):
                        bad = ("evaluated_despite_missing_name", "log={}".format(log))
                else:
                    for ev in log:
                        if ev[0] == "pre" and ev[2] != want[ev[1]]:
                            bad = ("condition_saw_wrong_value", "condition on {!r} saw another object than Python binds".format(ev[1]))
                        elif ev[0] == "pre_unknown" and ev[2] != id(kw[unknown]):
                            bad = ("condition_saw_wrong_value", "condition on extra keyword {!r}".format(unknown))
                        elif ev[0] == "args" and (ev[1] != "tuple" or ev[2] != want_args):
                            bad = ("_ARGS_wrong", "_ARGS differs from the positional arguments of the call")
                        elif ev[0] == "kwargs" and (ev[1] != "dict" or ev[2] != want_kwargs):
                            bad = ("_KWARGS_wrong", "_KWARGS differs from the keyword arguments of the call")
                        elif ev[0] == "cap" and ev[1] != want:
                            bad = ("capture_saw_wrong_value", "capture: {} vs bound {}".format(ev[1], want))
                        elif ev[0] == "body" and ev[1] != want:
                            bad = ("harness_body_mismatch", "body saw {} vs bind {}".format(ev[1], want))
                        elif ev[0] == "post" and (ev[1] != want or ev[2] != id(ns["R"]) or ev[3] != id(ns["R"])):
                            bad = ("postcondition_saw_wrong_value", "post: {} vs bound {}".format(ev[1], want))
                        elif ev[0] == "errfac" and (ev[1] != want or ev[2] != id(ns["R"]) or ev[3] != id(ns["R"])
                                                    or ev[4] != want_args or ev[5] != want_kwargs):
                            bad = ("error_factory_saw_wrong_value", "errfac: {} vs bound {}".format(ev[1], want))
                        if bad:
                            break
                    if bad is None:
                        roles = [ev[0] for ev in log]
                        need = ["pre"] * len(named) + ["args", "kwargs"] + (["pre_unknown"] if unknown else []) + ["cap", "body", "post"] + ([] if qtruth else ["errfac"])
                        if sorted(roles) != sorted(need):
                            bad = ("missing_or_extra_evaluations", "roles {} expected {} exc={!r}".format(roles, need, exc))
                        elif qtruth and (exc is not None or r is not ns["R"]):
                            bad = ("wrong_outcome", "expected the result object, got exc={!r}".format(exc))
                        elif not qtruth and not isinstance(exc, ns["Viol"]):
                            bad = ("wrong_outcome", "expected Viol, got {!r}".format(exc))
                if bad:
                    callsrc = "f({})".format(", ".join(["P{}".format(i) for i in range(npos)] + ["{0}=K_{0}".format(k) for k in kws]))
                    script = src + "\n# call: {} with T['q']={}\n".format(callsrc, qtruth)
                    acc.violation(core.Violation(
                        PROP, bad[0], feats,
                        "def f({}) called as {}: {}".format(sig_text(s)[0], callsrc, bad[1]),
                        spec={"sig": s, "npos": npos, "kws": list(kws), "q": qtruth, "unknown": unknown, "cdef": cdef, "none_values": none_values}, script=script))
        acc.sample({"signature": "def f({})".format(sig_text(s)[0]), "unknown": unknown}, cap=2)
    finally:
        core.unload_source(ns)


# ---------------------------------------------------------------------------------------------------------------
# _ARGS / _KWARGS across several precondition groups: a failed earlier group (whose message is generated) must not change
# what the later group, the captures and the postconditions of the same call receive

GROUPS_SRC = '''\
import icontract
LOG = []
T = {}
class Obj:
    def __init__(self, tag): self.tag = tag
    def __repr__(self): return "<" + self.tag + ">"
def ids(_ARGS, _KWARGS):
    return (tuple(id(v) for v in _ARGS), tuple(sorted((k, id(v)) for k, v in _KWARGS.items())))
class A(icontract.DBC):
    @icontract.require(lambda x, _ARGS: (LOG.append(("base", id(x), len(_ARGS))) or T.get("base", True)))
    {adef} m(self, x, *args, **kwargs):
        return 0
class B(A):
    @icontract.snapshot(lambda _ARGS, _KWARGS: (LOG.append(("cap",) + ids(_ARGS, _KWARGS)) or 1), name="s")
    @icontract.require(lambda x, _ARGS, _KWARGS: (LOG.append(("own", id(x)) + ids(_ARGS, _KWARGS)) or T.get("own", True)))
    @icontract.ensure(lambda x, _ARGS, _KWARGS, result, OLD: (LOG.append(("post", id(x)) + ids(_ARGS, _KWARGS)) or True))
    {adef} m(self, x, *args, **kwargs):
        LOG.append(("body", id(x), tuple(id(v) for v in args), tuple(sorted((k, id(v)) for k, v in kwargs.items()))))
        return 1
'''


def check_groups(acc):
    import icontract
    for is_async in (False, True):
        ns = core.load_source(GROUPS_SRC.replace("{adef}", "async def" if is_async else "def"), "c05g")
        try:
            Obj = ns["Obj"]
            for base_t, own_t in ((True, True), (False, True), (True, False), (False, False)):
                for npos, kws in ((1, ()), (3, ()), (1, ("z",)), (2, ("y", "z")), (0, ("x",)), (0, ("x", "z"))):
                    b = ns["B"]()
                    pos = tuple(Obj("P{}".format(i)) for i in range(npos))
                    kw = {k: Obj("K_" + k) for k in kws}
                    ns["T"].clear()
                    ns["T"].update({"base": base_t, "own": own_t})
                    del ns["LOG"][:]

                    def go():
                        try:
                            r = b.m(*pos, **kw)
                            if is_async:
                                r = core.run_coro(r)
                            return ("ret", r)
                        except BaseException as e:  # noqa
                            return ("exc", type(e).__name__, str(e)[:160])
                    out = core.fresh_ctx_run(go)
                    log = list(ns["LOG"])
                    x = pos[0] if pos else kw["x"]
                    want_args = tuple(id(v) for v in (b,) + pos)
                    want_kwargs = tuple(sorted((k, id(v)) for k, v in kw.items()))
                    acc.case(("groups", is_async, base_t, own_t, npos, kws), True, len(log), out[0])
                    bad = None
                    accepted = base_t or own_t
                    if accepted and out != ("ret", 1):
                        bad = ("wrong_outcome", "the effective precondition holds but the call gave {}".format(out))
                    elif not accepted and (out[0] != "exc" or out[1] != "ViolationError"):
                        bad = ("wrong_outcome", "both groups fail but the call gave {}".format(out))
                    else:
                        for ev in log:
                            if ev[0] == "base" and (ev[1] != id(x) or ev[2] != len(want_args)):
                                bad = ("condition_saw_wrong_value", "base group: {}".format(ev))
                            elif ev[0] in ("own", "post") and (ev[1] != id(x) or ev[2] != want_args or ev[3] != want_kwargs):
                                bad = ("_ARGS_wrong", "{}: _ARGS/_KWARGS/x differ from the call".format(ev[0]))
                            elif ev[0] == "cap" and (ev[1] != want_args or ev[2] != want_kwargs):
                                bad = ("_ARGS_wrong", "capture: _ARGS/_KWARGS differ from the call")
                    if bad:
                        acc.violation(core.Violation(
                            PROP, bad[0], {"family": "groups", "self": "async" if is_async else True, "npos": npos, "kws": ",".join(kws), "base_holds": base_t, "own_holds": own_t},
                            "B(A).m(self, x, *args, **kwargs) with two precondition groups (base holds: {}, own holds: {}), called with {} positionals and keywords {}: {} (log {})".format(
                                base_t, own_t, npos, kws, bad[1], log), spec={"groups": True}, script=GROUPS_SRC))
            acc.sample({"family": "groups", "async": is_async}, cap=1)
        finally:
            core.unload_source(ns)


# ---------------------------------------------------------------------------------------------------------------
# the decorated callable is itself a decorator which adapts the arguments for the function beneath it and declares its own
# parameters with __signature__ (functools.wraps alone would make inspect report the parameters of the inner function)

ADAPTER_SRC = '''\
import functools
import inspect
import icontract
LOG = []
class Obj:
    def __init__(self, tag): self.tag = tag
    def __repr__(self): return "<" + self.tag + ">"
DEFAULT = Obj("DEFAULT")
SESSION = Obj("SESSION")
def c_timeout(timeout):
    LOG.append(("pre", "timeout", id(timeout)))
    return True
def q_timeout(timeout, result):
    LOG.append(("post", "timeout", id(timeout)))
    return True
def c_x(x):
    LOG.append(("pre", "x", id(x)))
    return True
def c_session(session):
    LOG.append(("pre", "session", id(session)))
    return True
def with_default_timeout(func):
    @functools.wraps(func)
    def wrapper(url, timeout=DEFAULT):
        return func(url, timeout)
    wrapper.__signature__ = inspect.signature(wrapper, follow_wrapped=False)
    return wrapper
def with_session(func):
    @functools.wraps(func)
    def wrapper(x, **kwargs):
        return func(SESSION, x, **kwargs)
    wrapper.__signature__ = inspect.signature(wrapper, follow_wrapped=False)
    return wrapper
def renamed(func):
    @functools.wraps(func)
    def wrapper(x, limit=DEFAULT):
        return func(x, timeout=limit)
    wrapper.__signature__ = inspect.signature(wrapper, follow_wrapped=False)
    return wrapper
@icontract.require(c_timeout)
@icontract.ensure(q_timeout)
@with_default_timeout
def fetch(url, timeout):
    LOG.append(("body", id(timeout)))
    return 1
@icontract.require(c_x)
@with_session
def query(session, x, **kwargs):
    LOG.append(("body", id(x)))
    return 1
@icontract.require(c_session)
@with_session
def query_asking_for_the_inner_name(session, x, **kwargs):
    LOG.append(("body", id(x)))
    return 1
@icontract.require(c_x)
@renamed
def limited(x, timeout):
    LOG.append(("body", id(x)))
    return 1
'''


def check_adapters(acc):
    ns = core.load_source(ADAPTER_SRC, "c05a")
    try:
        Obj = ns["Obj"]
        u, t, x = Obj("U"), Obj("T"), Obj("X")
        cases = [
            ("default_supplied_by_the_adapter", lambda: ns["fetch"](u), [("pre", "timeout", id(ns["DEFAULT"])), ("body", id(ns["DEFAULT"])), ("post", "timeout", id(ns["DEFAULT"]))], None),
            ("default_overridden_positionally", lambda: ns["fetch"](u, t), [("pre", "timeout", id(t)), ("body", id(t)), ("post", "timeout", id(t))], None),
            ("default_overridden_by_keyword", lambda: ns["fetch"](u, timeout=t), [("pre", "timeout", id(t)), ("body", id(t)), ("post", "timeout", id(t))], None),
            ("argument_injected_by_the_adapter", lambda: ns["query"](x), [("pre", "x", id(x)), ("body", id(x))], None),
            ("argument_injected_keyword_call", lambda: ns["query"](x=x), [("pre", "x", id(x)), ("body", id(x))], None),
            ("keyword_renamed_by_the_adapter", lambda: ns["limited"](x, limit=t), [("pre", "x", id(x)), ("body", id(x))], None),
            # the condition asks for a name the call (as the decorated callable takes it) does not provide: TypeError naming it
            ("inner_name_not_provided_by_the_call", lambda: ns["query_asking_for_the_inner_name"](x), [], "session"),
        ]
        for label, thunk, want, missing in cases:
            del ns["LOG"][:]
            exc = None
            try:
                core.fresh_ctx_run(thunk)
            except Exception as e:
                exc = e
            log = list(ns["LOG"])
            acc.case(("adapter", label), True, len(log), type(exc).__name__ if exc else "ret")
            bad = None
            if missing is not None:
                if not isinstance(exc, TypeError) or missing not in str(exc):
                    bad = ("missing_name_not_reported", "expected TypeError naming {!r}, got {!r}; log {}".format(missing, exc, log))
                elif log:
                    bad = ("evaluated_despite_missing_name", "log={}".format(log))
            elif exc is not None:
                bad = ("missing_or_extra_evaluations", "a call the decorated callable can bind failed with {!r}".format(exc))
            elif log != want:
                bad = ("condition_saw_wrong_value", "expected events {} got {}".format(want, log))
            if bad:
                acc.violation(core.Violation(PROP, bad[0], {"family": "adapter", "case": label, "unknown": None, "surplus_positional": False},
                                             "contracts above a decorator which adapts the arguments and declares its parameters ({}): {}".format(label, bad[1]),
                                             spec={"adapters": True}, script=ADAPTER_SRC))
        acc.sample({"family": "adapter", "cases": [c[0] for c in cases]}, cap=1)
    finally:
        core.unload_source(ns)


def work(chunk):
    acc = core.Acc()
    for item in chunk:
        if item == "groups":
            check_groups(acc)
            continue
        if item == "adapters":
            check_adapters(acc)
            continue
        s, unknown, cdef = item
        check_sig(s, acc, unknown, cdef)
    return acc.result()


def items(tier):
    out = []
    for s in signatures(tier):
        out.append((s, None, False))
        if s["po"] + s["pk"] + s["ko"]:
            out.append((s, None, True))
            if s["self"] in (False, True) or tier == "thorough":
                out.append((s, None, "kwonly"))
                out.append((s, None, "kwonly_default"))
        if s["self"] is False or tier == "thorough":
            out.append((s, "nope", False))
            if s["varkw"]:
                out.append((s, "z", False))
                # a condition asking for the name of the variadic parameter itself: the call never provides such a name
                out.append((s, "kwargs", False))
            if s["var"]:
                out.append((s, "args", False))
    return out


def run(tier, t0):
    it = core.rotate(items(tier))
    tot = core.merge(core.pmap(work, list(it) + ["groups", "adapters"]))
    return core.finish(
        PROP, tier, tot, t0,
        rule="every signature with <=2 positional-only, <=2 positional-or-keyword, optional *args, <=2 keyword-only, optional "
             "**kwargs ({} named parameters at most), every legal placement of defaults, with/without leading self; every call "
             "shape accepted by CPython for a bare function with the same parameters, with <= #positional+2 positionals and any keyword subset of the named "
             "parameters plus one extra key (also an extra key equal to a positional-only name); each call run with the final "
             "postcondition true and false (error factory), once with plain contract callables and once with contract callables "
             "whose parameters carry (wrong) defaults; plus variants with a condition asking for a name the call does not "
             "provide (also the name of *args / **kwargs itself), calls whose every argument is None, a hierarchy with two precondition groups reading "
             "_ARGS/_KWARGS, and 7 calls of contracted callables which are themselves argument-adapting decorators declaring their own "
             "__signature__ (default supplied / argument injected / keyword renamed by the adapter). Oracle: object identity with what the bare spy function receives. non-trivial = the call passes at least one "
             "argument or the signature has a named parameter".format(3 if tier == "quick" else 4),
        assumptions=["a condition naming *args / **kwargs itself must end in a TypeError (KF-C05-1 for the first surplus positional)",
                     "only calls that Python itself accepts are explored"],
        bounds={"signature_programs": len(it), "max_named": 3 if tier == "quick" else 4},
    )


def replay(path):
    data = json.load(open(path))["spec"]
    acc = core.Acc()
    if data.get("groups"):
        check_groups(acc)
    elif data.get("adapters"):
        check_adapters(acc)
    else:
        check_sig(data["sig"], acc, data.get("unknown"), data.get("cdef", False))
    for v in acc.violations[:5]:
        print("VIOLATION property={} replay={}".format(PROP, path))
        print(" ", v.symptom, v.detail[:300])
    return 1 if acc.violations else 0
