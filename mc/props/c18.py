"""C18 - introspection data tells integrators the truth.

(a) For every family-F program x truth assignment the verdict obtained by evaluating the introspected lists by hand
(the way tests/test_for_integrators.py does) must equal the verdict of the real call; the lists must hold exactly the
effective contracts of the declaration; one checker per stack.  (b) Every class created through the metaclass is
announced exactly once to the registration hook."""
import inspect
import json

from .. import core, fam
from .c14 import count_checkers

PROP = "C18"


def specs(tier):
    out = []
    own_opts = [(0, 0, 0), (1, 0, 0), (2, 1, 0), (1, 1, 1), (0, 2, 1)]
    if tier == "thorough":
        own_opts += [(3, 0, 0), (2, 2, 2), (0, 1, 0), (1, 2, 0)]
    bases_q = [None, [(1, 1, 0, 0)], [(2, 0, 0, 1)], [(0, 1, 1, 0)]]
    bases_t = bases_q + [[(1, 1, 1, 1), (1, 1, 0, 0)], [(1, 0, 0, 0), None], [(0, 0, 0, 0)]]
    for kind in fam.KINDS:
        for is_async in ([False, True] if kind in fam.ASYNCABLE else [False]):
            for dbc in ([False, True] if kind != "func" else [False]):
                for base in ((bases_q if tier == "quick" else bases_t) if dbc else [None]):
                    for (pre, post, snap) in own_opts:
                        for inv in ((0, 1) if kind != "func" else (0,)):
                            levels = []
                            base_pre = False
                            provided = False
                            for b in base or []:
                                if b is None:
                                    levels.append({"defines": False})
                                else:
                                    levels.append({"pre": b[0], "post": b[1], "snap": b[2], "inv": b[3], "defines": True})
                                    base_pre = base_pre or b[0] > 0
                                    provided = True
                            if provided and not base_pre and pre and kind not in ("init", "new"):
                                continue
                            levels.append({"pre": pre, "post": post, "snap": snap, "inv": inv, "defines": True})
                            if inv and (pre, post, snap) == (1, 0, 0) and not base and kind in ("new", "method", "call"):
                                # (kinds whose hand-run body assigns no attribute: a hand-run __init__ or setter body would trip the
                                #  real __setattr__ wrapper outside of any suspension)
                                # invariants that are not checked on calls: construction must still evaluate all of __invariants__
                                for inv_on in ("S", "SC", "A"):
                                    lv2 = [dict(l) for l in levels]
                                    lv2[-1].update({"inv": len(inv_on), "inv_on": inv_on})
                                    out.append({"kind": kind, "is_async": is_async, "dbc": dbc, "levels": lv2, "style": "def", "err": "cls",
                                                "foreign": None, "layout": "grouped"})
                            if dbc and base and base[0] is not None and (pre, post, snap) == (1, 0, 0) and kind in ("method", "call"):
                                # invariants checked on ALL events (CALL | SETATTR), declared in a base and inherited through the meta-class,
                                # alone and next to a CALL-only one; also declared on the leaf class
                                for where, inv_on in (("base", "A"), ("base", "AC"), ("base", "CA"), ("leaf", "A"), ("both", "A")):
                                    lv2 = [dict(l) for l in levels]
                                    if where in ("base", "both"):
                                        lv2[0].update({"inv": len(inv_on), "inv_on": inv_on})
                                    if where in ("leaf", "both"):
                                        lv2[-1].update({"inv": len(inv_on), "inv_on": inv_on})
                                    out.append({"kind": kind, "is_async": is_async, "dbc": dbc, "levels": lv2, "style": "def", "err": "cls",
                                                "foreign": None, "layout": "grouped"})
                            for foreign in (None, "top", "mid", "bottom"):
                                if foreign and (inv or (tier == "quick" and (pre, post, snap) not in ((1, 1, 1), (2, 1, 0)))):
                                    continue
                                idx = len(out)
                                out.append({"kind": kind, "is_async": is_async, "dbc": dbc, "levels": levels,
                                            "style": ("def", "lambda")[idx % 2], "err": "cls", "foreign": foreign,
                                            "layout": ("grouped", "interleaved")[(idx // 2) % 2]})
    return out


def member_function(prog):
    """The function object an integrator would hand to find_checker, and the class (or None)."""
    spec, ns = prog.spec, prog.ns
    kind = spec["kind"]
    if kind == "func":
        return ns["f"], None
    leaf = ns["L{}".format(len(spec["levels"]) - 1)]
    name = {"method": "m", "static": "m", "classm": "m", "call": "__call__", "pget": "p", "pset": "p", "pdel": "p",
            "init": "__init__", "new": "__new__"}[kind]
    raw = None
    for k in leaf.__mro__:
        if name in vars(k):
            raw = vars(k)[name]
            break
    if isinstance(raw, (staticmethod, classmethod)):
        raw = raw.__func__
    elif isinstance(raw, property):
        raw = {"pget": raw.fget, "pset": raw.fset, "pdel": raw.fdel}[kind]
    return raw, leaf


def by_hand(prog, truth):
    """Evaluate the introspected lists by hand; returns ('ok',) or ('viol', name)."""
    import icontract

    spec, ns = prog.spec, prog.ns
    kind = spec["kind"]
    fn, leaf = member_function(prog)
    log = ns["LOG"]
    ns["T"].clear()
    ns["T"].update(truth)
    ns["CUR"].clear()
    ns["CAPRET"].clear()
    ns["BODY"]["mode"] = "ret_obj"
    ns["BODY"]["mut"] = "none"
    x, y = [0], [1]
    obj = prog.obj
    if obj is not None:
        obj.__dict__["data"] = [5]
    ns["CUR"]["A"] = obj if kind in fam.SELF_PRIMARY else x
    kwargs = {"x": x, "y": y}
    args = [x, y]
    if kind in ("method", "call", "pget", "pset", "pdel"):
        kwargs["self"] = obj
        args = [obj] + args
    if kind == "classm":
        kwargs["cls"] = leaf
        args = [leaf] + args
    if kind in ("pget", "pdel"):
        kwargs = {"self": obj}
        args = [obj]
    if kind == "pset":
        kwargs = {"self": obj, "value": x}
        args = [obj, x]
    if kind == "new":
        kwargs["cls"] = leaf
        args = [leaf] + args

    def name_of(evaluate):
        del log[:]
        v = evaluate()
        if inspect.iscoroutine(v):
            v = core.run_coro(v)
        n = None
        for ev in log:
            if ev[0] in ("pre", "post", "inv"):
                n = ev[1]
        return n, bool(v)

    def eval_invs(instance):
        for c in getattr(type(instance), "__invariants__", []):
            if icontract.InvariantCheckEvent.CALL not in c.check_on:
                continue
            n, ok = name_of(lambda: c.condition(self=instance) if "self" in c.condition_arg_set else c.condition())
            if not ok:
                return ("viol", n)
        return None

    has_inv_before = kind in fam.INV_BEFORE and obj is not None
    if has_inv_before:
        r = eval_invs(obj)
        if r:
            return r
    checker = icontract._checkers.find_checker(fn) if fn is not None else None
    result = None
    if checker is not None:
        failed = None
        for group in checker.__preconditions__:
            failed = None
            for contract in group:
                ck = icontract._checkers.select_condition_kwargs(contract=contract, resolved_kwargs=kwargs)
                n, ok = name_of(lambda: contract.condition(**ck))
                if not ok:
                    failed = n
                    break
            if failed is None:
                break
        if failed is not None:
            return ("viol", failed)
        if checker.__postconditions__ and checker.__postcondition_snapshots__:
            old = {}
            for snap in checker.__postcondition_snapshots__:
                old[snap.name] = snap.capture(**icontract._checkers.select_capture_kwargs(a_snapshot=snap, resolved_kwargs=kwargs))
            kwargs["OLD"] = icontract._checkers.Old(mapping=old)
    # run the original body (the innermost function of the stack)
    if kind in ("init",):
        instance = object.__new__(leaf)
        body = inspect.unwrap(fn) if fn is not None else None
        if body is not None:
            body(instance, x, y)
        result = None
    elif kind == "new":
        instance = inspect.unwrap(fn)(leaf, x, y)
        result = instance
    else:
        body = inspect.unwrap(fn)
        result = body(*args)
        if inspect.iscoroutine(result):
            result = core.run_coro(result)
        instance = obj
    if checker is not None and checker.__postconditions__:
        kwargs["result"] = result
        for contract in checker.__postconditions__:
            ck = icontract._checkers.select_condition_kwargs(contract=contract, resolved_kwargs=kwargs)
            n, ok = name_of(lambda: contract.condition(**ck))
            if not ok:
                return ("viol", n)
    if kind in fam.INV_AFTER and instance is not None and kind not in ("static", "classm"):
        r = eval_invs(instance) if kind not in ("init", "new") else None
        if kind in ("init", "new"):
            for c in getattr(leaf, "__invariants__", []):
                n, ok = name_of(lambda: c.condition(self=instance))
                if not ok:
                    r = ("viol", n)
                    break
        if r:
            return r
    return ("ok",)


def check_spec(spec, acc):
    import icontract

    spec = fam.norm(spec)
    def_error, groups, posts, snaps, invs, target = fam.effective(spec)
    if def_error is not None:
        return
    prog = fam.Program(spec)
    key0 = json.dumps(spec, sort_keys=True)
    try:
        if prog.def_exc is not None:
            acc.case(("def", key0), True, 1, "def_error")
            acc.violation(core.Violation(PROP, "definition_failed", fam.feat(spec), repr(prog.def_exc), spec={"spec": spec}, script=fam.render(spec)))
            return
        fn, leaf = member_function(prog)
        checker = icontract._checkers.find_checker(fn) if fn is not None else None
        # (1) the lists hold exactly the effective contracts
        def cname(c):
            return getattr(c.condition, "__name__", "?")
        if spec["style"] == "def":
            got_groups = [[cname(c) for c in g] for g in checker.__preconditions__] if checker else []
            got_posts = [cname(c) for c in checker.__postconditions__] if checker else []
            got_snaps = [s.name for s in checker.__postcondition_snapshots__] if checker else []
            want_groups = [g for g in groups if g]
            acc.case((key0, "lists"), True, 3, "lists")
            if got_groups != want_groups or got_posts != posts or got_snaps != snaps:
                acc.violation(core.Violation(
                    PROP, "introspected_lists_not_the_effective_contracts", fam.feat(spec),
                    "preconditions {} (want {}), postconditions {} (want {}), snapshots {} (want {})".format(
                        got_groups, want_groups, got_posts, posts, got_snaps, snaps), spec={"spec": spec}, script=fam.render(spec)))
                return
            if leaf is not None and spec["kind"] not in ("static", "classm"):
                got_invs = [cname(c) for c in getattr(leaf, "__invariants__", [])]
                if got_invs != invs:
                    acc.violation(core.Violation(PROP, "class_invariants_list", fam.feat(spec), "{} want {}".format(got_invs, invs),
                                                 spec={"spec": spec}, script=fam.render(spec)))
                    return
        if checker is not None:
            top = fn
            n = count_checkers(top)
            if n != 1:
                acc.violation(core.Violation(PROP, "not_a_single_checker", fam.feat(spec), "{} checkers in the stack".format(n),
                                             spec={"spec": spec}, script=fam.render(spec)))
                return
        # (2) verdict by hand == verdict of the real call
        names = fam.relevant_names(spec)
        for truth in fam.limited_truths(names, max_full=5, max_falsy=2):
            log, outcome = prog.call(truth, "ret_obj", "none", "pos")
            real = ("ok",) if outcome[0] == "ret" else ("viol", outcome[1])
            try:
                hand = core.fresh_ctx_run(by_hand, prog, truth)
            except Exception as e:
                hand = ("hand_evaluation_failed", repr(e)[:200])
            acc.case((key0, tuple(sorted(truth.items()))), bool(names), len(log), (real[0], hand[0]))
            if hand != real:
                acc.violation(core.Violation(
                    PROP, "hand_evaluation_disagrees_with_call", fam.feat(spec),
                    "falsy={}: evaluating the introspected lists by hand gives {} but the call gives {}".format(
                        [k for k, v in truth.items() if not v], hand, real),
                    spec={"spec": spec, "truth": truth}, script=fam.replay_script(spec, truth, "ret_obj", "none", "pos")))
                break
        acc.sample({"spec": spec}, cap=2)
    finally:
        prog.close()


# ---------------------------------------------------------------------------------------------
# registration hook

REG_SRC = '''\
import abc
import icontract
class A(icontract.DBC):
    pass
@icontract.invariant(lambda self: True)
class B(icontract.DBC):
    def __init__(self): self.x = 1
class C(A):
    @icontract.require(lambda x: x > 0)
    def m(self, x): return x
@icontract.invariant(lambda self: True)
@icontract.invariant(lambda self: True, check_on=icontract.InvariantCheckEvent.ALL)
class D(B):
    pass
class E(A, B):
    pass
class F(metaclass=icontract.DBCMeta):
    pass
class G(F):
    pass
H = icontract.DBCMeta("H", (object,), {})
I = icontract.DBCMeta("I", (A,), {"m": lambda self: 1})
class J(icontract.DBC):
    def __init_subclass__(cls, flag=False, **kwargs):
        cls.flag = flag
class K(J, flag=True):
    pass
class L(icontract.DBC):
    __slots__ = ("a",)
class M(icontract.DBC):
    @abc.abstractmethod
    def m(self): ...
class N(M):
    def m(self): return 1
# a meta-class deriving from DBCMeta with an __init__ of its own which does not chain up; classes made by calling __new__ of the
# meta-class directly
class QuietMeta(icontract.DBCMeta):
    def __init__(cls, name, bases, namespace, **kwargs):
        cls.made_by = "QuietMeta"
class O(metaclass=QuietMeta):
    pass
class P(O):
    pass
Q = icontract.DBCMeta.__new__(icontract.DBCMeta, "Q", (A,), {})
class ChainingMeta(icontract.DBCMeta):
    def __new__(mcs, name, bases, namespace, **kwargs):
        return super().__new__(mcs, name, bases, namespace, **kwargs)
    def __init__(cls, name, bases, namespace, **kwargs):
        super().__init__(name, bases, namespace, **kwargs)
class R(metaclass=ChainingMeta):
    pass
EXPECTED = [A, B, C, D, E, F, G, H, I, J, K, L, M, N, O, P, Q, R]
'''


def check_registration(acc):
    import icontract
    import icontract._metaclass as mc

    calls = []
    orig = mc._register_for_hypothesis
    mc._register_for_hypothesis = lambda cls: calls.append(cls)
    try:
        ns = core.load_source(REG_SRC, "c18reg")
    finally:
        mc._register_for_hypothesis = orig
    for cls in ns["EXPECTED"]:
        n = sum(1 for c in calls if c is cls)
        acc.case(("reg", cls.__name__), True, 1, n)
        if n != 1:
            acc.violation(core.Violation(PROP, "registration_count", {"cls": cls.__name__, "count": n},
                                         "class {} was announced {} times to the registration hook (expected exactly once)".format(cls.__name__, n),
                                         spec={"registration": cls.__name__}, script=REG_SRC))
    extra = [c for c in calls if not any(c is e for e in ns["EXPECTED"])]
    if extra or any(c is icontract.DBC for c in calls):
        acc.violation(core.Violation(PROP, "registration_unexpected", {"cls": str(extra)}, "unexpected announcements: {}".format(extra),
                                     spec={"registration": "extra"}, script=REG_SRC))
    # a hook that is busy while further classes are created: (1) it derives a helper class through the meta-class itself,
    # (2) another thread creates a class while the hook of this thread has not returned yet
    import threading
    calls2 = []
    entered, leave = threading.Event(), threading.Event()

    def busy_hook(cls):
        calls2.append(cls.__name__)
        if cls.__name__ in ("S", "T"):
            type(cls)(cls.__name__ + "Helper", (cls,), {"__module__": "c18busy"})
        if cls.__name__ == "Slow":
            entered.set()
            leave.wait(timeout=20)
    mc._register_for_hypothesis = busy_hook
    try:
        S = icontract.DBCMeta("S", (icontract.DBC,), {"__module__": "c18busy"})
        T = icontract.invariant(lambda self: True)(icontract.DBCMeta("T", (S,), {"__module__": "c18busy", "m": lambda self: 1}))
        th = threading.Thread(target=lambda: icontract.DBCMeta("Slow", (icontract.DBC,), {"__module__": "c18busy"}))
        th.start()
        if not entered.wait(timeout=20):
            raise RuntimeError("harness: the hook was never entered for Slow")
        icontract.DBCMeta("Fast", (icontract.DBC,), {"__module__": "c18busy"})
        leave.set()
        th.join()
    finally:
        leave.set()
        mc._register_for_hypothesis = orig
    for name in ("S", "SHelper", "T", "THelper", "Slow", "Fast"):
        n = calls2.count(name)
        acc.case(("reg_busy", name), True, 1, n)
        if n != 1:
            acc.violation(core.Violation(PROP, "registration_count", {"cls": name, "count": n, "busy_hook": True},
                                         "class {} (created while the registration hook was busy / by the hook itself) was announced {} times "
                                         "(expected exactly once); announcements: {}".format(name, n, calls2), spec={"registration": name}, script=REG_SRC))
    # default hook: the weak set holds each class, never DBC itself
    ns2 = core.load_source(REG_SRC, "c18reg2")
    for cls in ns2["EXPECTED"]:
        acc.case(("store", cls.__name__), True, 1, cls in mc._CONTRACT_CLASSES)
        if cls not in mc._CONTRACT_CLASSES:
            acc.violation(core.Violation(PROP, "registration_store", {"cls": cls.__name__}, "{} missing from the default store".format(cls.__name__),
                                         spec={"registration": cls.__name__}, script=REG_SRC))
    if icontract.DBC in mc._CONTRACT_CLASSES:
        acc.violation(core.Violation(PROP, "registration_store", {"cls": "DBC"}, "DBC itself is in the store", spec={"registration": "DBC"}))


def work(chunk):
    acc = core.Acc()
    for spec in chunk:
        if spec == "registration":
            check_registration(acc)
        else:
            check_spec(spec, acc)
    return acc.result()


def run(tier, t0):
    sp = core.rotate(specs(tier)) + ["registration"]
    tot = core.merge(core.pmap(work, sp))
    return core.finish(
        PROP, tier, tot, t0,
        rule="family-F programs (all kinds incl. property accessors, constructors, static/class methods; DBC chains with gaps; "
             "foreign decorators at top/middle/bottom; def and lambda conditions) x all truth assignments (<=5 conditions; more: "
             "<=2 falsy): the verdict obtained by evaluating find_checker(...).__preconditions__ (DNF), snapshots, "
             "__postconditions__ and the class __invariants__ by hand equals the verdict of the real call; for def-style "
             "programs the lists name exactly the effective contracts of the declaration; exactly one checker per decorator "
             "stack; plus 18 class-creation shapes (statements, meta-class calls, derived meta-classes with and without an __init__ of their own, a direct __new__ of the meta-class) announced exactly once to a patched registration hook (and present in the "
             "default store, DBC itself never), also when the hook itself derives a helper class through the meta-class and when another thread creates a class while the hook is busy; non-trivial = programs with at least one condition",
        assumptions=["the hand evaluation follows tests/test_for_integrators.py: select kwargs by the condition signature, stop at "
                     "the first falsy condition of a group / the first satisfied group"],
        bounds={"programs": len(sp) - 1},
    )


def replay(path):
    data = json.load(open(path))["spec"]
    acc = core.Acc()
    if "registration" in data:
        check_registration(acc)
    else:
        check_spec(data["spec"], acc)
    for v in acc.violations[:5]:
        print("VIOLATION property={} replay={}".format(PROP, path))
        print(" ", v.symptom, v.detail[:600])
    return 1 if acc.violations else 0
