"""C07 - a violation always surfaces as the contract's error with the true condition text.

(a) the whole C06 condition set: exception class at the caller, location line, condition text parsing to the very
expression; (b) a guard family whose later operands are only defined when the earlier ones hold, instrumented with
probes (what message building evaluates must be a subset of what Python evaluated); (c) source layouts of the
decorator."""
import ast
import os
import itertools
import json
import re

from .. import core, expr
from . import c06

PROP = "C07"

# ---------------------------------------------------------------------------------------------
# (a) C06 conditions: exception class + location + text


def check_batch_a(batch, acc, vals):
    import icontract

    genv = {}
    exec(expr.GLOBALS_SRC, genv)
    genv.update(expr.CLOSURE)
    genv.update(expr.OWN_DEFAULTS)
    items, falsy = [], {}
    for idx, (typ, e, fi, cond) in batch:
        role = c06.role_of(idx)
        if role == "invariant" and expr.own_default_params(cond):
            role = "require"
        ctext = c06.to_self(cond) if role == "invariant" else cond
        fv = []
        for vi, val in enumerate(vals):
            env = dict(genv)
            if role == "invariant":
                h = type("H", (), {})()
                h.__dict__.update(val)
                env["self"] = h
            else:
                env.update(val)
            try:
                res = eval(compile(ast.parse(ctext, mode="eval"), "<c>", "eval"), env)
                if not res:
                    fv.append(vi)
            except Exception:
                pass
        if fv:
            # error form rotates: default, class, class(BaseException)
            err = ("", ", error=MyErr", ", error=MyBase")[idx % 3]
            items.append((idx, role, ctext, err))
            falsy[idx] = (typ, e, fi, fv)
    if not items:
        return
    src = c06.render_batch([(i, r, c) for i, r, c, e in items], extra={i: e for i, r, c, e in items},
                           prelude="class MyErr(Exception): pass\nclass MyBase(BaseException): pass\n")
    ns = core.fresh_ctx_run(core.load_source, src, "c07a")
    lines = src.splitlines()
    try:
        for idx, role, ctext, err in items:
            typ, e, fi, fv = falsy[idx]
            want_cls = {"": icontract.ViolationError, ", error=MyErr": ns["MyErr"], ", error=MyBase": ns["MyBase"]}[err]
            for vi in fv:
                val = vals[vi]
                feats = {"part": "a", "type": typ, "frame": fi, "role": role, "valuation": vi, "err": err.replace(", error=", "") or "default",
                         "top": type(ast.parse(e, mode="eval").body).__name__}
                exc = None
                try:
                    core.fresh_ctx_run(lambda: ns["FS"][idx](**val))
                except BaseException as ex:  # noqa
                    exc = ex
                acc.case((ctext, vi, role, err), True, 2, type(exc).__name__ if exc else "ret")
                bad = None
                if exc is None:
                    bad = ("violation_not_raised", "falsy condition but the call returned")
                elif type(exc) is not want_cls:
                    bad = ("violation_replaced_by_other_exception", "expected {} got {!r} (cause {!r})".format(want_cls.__name__, exc, exc.__cause__))
                else:
                    msg = str(exc.args[0]) if exc.args else ""
                    m = re.match(r"File (\S+), line (\d+) in ([^\n:]+):\n", msg)
                    if not m:
                        bad = ("location_missing", msg[:200])
                    else:
                        lineno = int(m.group(2))
                        # the decorator occupies exactly one line in these modules
                        if m.group(1) != ns["__file__"] or not (1 <= lineno <= len(lines)) or ctext not in lines[lineno - 1]:
                            bad = ("location_wrong", "reported {}:{} which reads {!r}".format(m.group(1), lineno, lines[lineno - 1][:120] if 1 <= lineno <= len(lines) else None))
                        elif m.group(3) != "make":
                            bad = ("location_scope", m.group(3))
                        else:
                            try:
                                pm = expr.parse_message(msg, ctext)
                                if ast.dump(ast.parse("(" + pm.condition_text + ")", mode="eval")) != ast.dump(ast.parse("(" + ctext + ")", mode="eval")):
                                    bad = ("condition_text_differs", "{!r} vs {!r}".format(pm.condition_text, ctext))
                            except (ValueError, SyntaxError) as pe:
                                bad = ("condition_text_missing", str(pe)[:200])
                if bad:
                    acc.violation(core.Violation(PROP, bad[0], feats, "condition {!r}, valuation {} ({}): {}".format(ctext, vi, val, bad[1]),
                                                 spec={"part": "a", "cond": ctext, "valuation": vi, "role": role, "err": err},
                                                 script="import icontract\n" + expr.GLOBALS_SRC + "# {} {}\n".format(role, ctext)))
        acc.sample({"part": "a", "condition": items[0][2]}, cap=1)
    finally:
        core.unload_source(ns)


# ---------------------------------------------------------------------------------------------
# (b) guard family with probes

GUARDS = [
    "pr(0, len(xs) > 0) and pr(1, xs[0] > y)",
    "pr(0, xs) and pr(1, xs[0] > 0)",
    "pr(0, xs) and pr(1, xs[0]) and pr(2, 10 // xs[0] > 100)",
    "not (pr(0, n is None) or pr(1, n.bit_length() > 5))",
    "pr(0, n is not None) and pr(1, n.bit_length() > 5)",
    "pr(0, 0) < pr(1, x) < pr(2, 10 // x)",
    "pr(0, 0) < pr(1, x) <= pr(2, 10 // x) != pr(3, 100 // (x - 1))",
    "len(xs) > 0 and xs[0] > 0 and all(v >= xs[0] for v in xs) and pr(0, False)",
    "pr(0, d.get(s) is not None) and pr(1, d[s] > 0)",
    "(pr(0, x) if pr(1, b) else pr(2, 1 // x)) > 5",
    "(pr(0, 1 // x) if pr(1, not b) else pr(2, x)) > 5",
    "not (pr(0, x == 0) or pr(1, 10 // x > 100))",
    "(pr(0, x != 0) and pr(1, y // x > 5)) or pr(2, False)",
    "pr(0, b) or (pr(1, xs) and pr(2, xs[0] > 0))",
    "pr(0, not xs) or pr(1, xs[-1] < 0) or pr(2, False)",
    "all(pr(0, v) != 0 and pr(1, 10 // v > 100) for v in xs) and pr(2, False)",
    "all(10 // v > 100 for v in xs if pr(0, v != 0) if pr(1, 10 // v < 5)) and pr(2, False)",
    "not any(pr(0, v == 0) or pr(1, 10 // v > 100) for v in xs)",
    "pr(0, s) and pr(1, s[0] == 'z')",
    "abs(pr(0, x) or pr(1, 10 // x)) > 100",
    "add(pr(0, x) and pr(1, 10 // x), 1) > 100",
    "[pr(0, x) and pr(1, 10 // x)][0] > 100",
    "{'k': pr(0, x) and pr(1, 10 // x)}['k'] > 100",
    "f'{pr(0, x) and pr(1, 10 // x)}' == 'q'",
    "(t := pr(0, x) and pr(1, 10 // x)) > 100",
    # operands inside a comprehension which do not depend on the loop variables: whether Python evaluates them depends on
    # the items (and on there being any)
    "all(v > 0 or pr(0, True) for v in xs) and pr(1, False)",
    "all(v < 0 and pr(0, True) for v in xs) or pr(1, False)",
    "all(0 < v < pr(0, 100) for v in xs) and pr(1, False)",
    "[pr(0, 1) for v in xs if v < 0] == [] and pr(1, False)",
    "all(v > 0 for v in xs if pr(0, True)) and not xs and pr(1, False)",
    "[v for v in xs for w in pr(0, [1])] == [] and pr(1, False)",
    "len({pr(0, 1) for v in xs if v < 0}) == 0 and pr(1, False)",
    "{v: pr(0, 1) for v in xs if v < 0} == {} and pr(1, False)",
    "not any(v < 0 and pr(0, True) for v in xs) and pr(1, False)",
    # ... the same for attribute look-ups (a property) and subscripts (a mapping with a __getitem__ of its own)
    "all(v > 0 or PO.hit for v in xs) and pr(1, False)",
    "all(v < 0 and PO.hit for v in xs) or pr(1, False)",
    "all(0 < v < PD['k'] for v in xs) and pr(1, False)",
    "all(v > 0 or PD['k'] for v in xs) and pr(1, False)",
    "xs and all(v > 0 or (PB and b) for v in xs) and pr(1, False)",    # the truth test of a plain name is user code (__bool__) as well
    "(not xs or all(v < 0 and (PB or b) for v in xs)) or pr(1, False)",
    "xs and all(PO.hit > v for v in xs) and pr(1, False)",   # (over an empty iterable nothing is evaluated at all; not a short-circuit)
    # a defaulted parameter of the condition itself (kd=0) in front of the guard
    "pr(0, kd < 1) and pr(1, x != 0) and pr(2, 10 // x > 100)",
    "kd < 1 and x != 0 and pr(0, 10 // x > 100)",
    "kd > 5 or pr(0, n is None) or pr(1, n + 1 < 0)",
    # LATE is a variable of the enclosing scope that is unbound when the function is called; Python does not read it here
    "pr(0, x != 0) and pr(1, LATE > 0) and pr(2, False)",
    "pr(0, x == 0) or pr(1, LATE > 0 and False)",
]


PROBE_OBJECTS_SRC = (
    "class _PO:\n    @property\n    def hit(self):\n        return pr(8, 100)\n    def __repr__(self):\n        return 'PO'\n"
    "class _PD:\n    def __getitem__(self, key):\n        return pr(9, 100)\n    def __repr__(self):\n        return 'PD'\n"
    "class _PB:\n    def __bool__(self):\n        return pr(7, True)\n    def __repr__(self):\n        return 'PB'\n"
    "PO = _PO()\nPD = _PD()\nPB = _PB()\n")


def guard_valuations():
    vs = expr.valuations()
    extra = [
        dict(vs[0], xs=[0], x=0, n=3, s="b", d={"b": 0}),
        dict(vs[1], xs=[0, 5], x=1, n=None, s="a", d={"a": -1}),
        dict(vs[2], xs=[2, 0], x=0, b=True, n=64, s="z", d={"z": None}),
        dict(vs[3], xs=[1], x=2, b=True),
    ]
    return vs + extra


def check_guards(acc):
    import icontract

    vals = guard_valuations()
    genv = {}
    exec(expr.GLOBALS_SRC, genv)
    genv.update(expr.CLOSURE)
    genv.update(expr.OWN_DEFAULTS)
    items = []
    for gi, g in enumerate(GUARDS):
        for err in ("", ", error=MyErr"):
            items.append((len(items), "require" if gi % 3 else "ensure", g, err))
    plog = []

    def pr(k, v):
        plog.append(k)
        return v
    src = c06.render_batch([(i, r, c) for i, r, c, e in items], extra={i: e for i, r, c, e in items},
                           prelude="class MyErr(Exception): pass\nPLOG = []\ndef pr(k, v):\n    PLOG.append(k)\n    return v\n" + PROBE_OBJECTS_SRC)
    ns = core.fresh_ctx_run(core.load_source, src, "c07g")
    try:
        for idx, role, g, err in items:
            want_cls = icontract.ViolationError if not err else ns["MyErr"]
            for vi, val in enumerate(vals):
                env = dict(genv)
                env.update(val)
                env["pr"] = pr
                exec(PROBE_OBJECTS_SRC, env)
                del plog[:]
                try:
                    res = eval(compile(ast.parse(g, mode="eval"), "<g>", "eval"), env)
                except Exception:
                    continue  # Python itself raises for this input: not a violation scenario
                if res:
                    continue
                python_probes = list(plog)
                del ns["PLOG"][:]
                exc = None
                try:
                    core.fresh_ctx_run(lambda: ns["FS"][idx](**val))
                except BaseException as ex:  # noqa
                    exc = ex
                lib_probes = list(ns["PLOG"])
                feats = {"part": "guard", "guard": g[:40], "role": role, "valuation": vi, "err": "MyErr" if err else "default"}
                acc.case((g, vi, role, err), True, len(lib_probes), type(exc).__name__ if exc else "ret")
                bad = None
                if type(exc) is not want_cls:
                    bad = ("violation_replaced_by_other_exception", "expected {} got {!r} (cause {!r})".format(want_cls.__name__, exc, getattr(exc, "__cause__", None)))
                else:
                    # the condition is evaluated once by the checker (= Python's own probes), then possibly re-evaluated
                    phase2 = lib_probes[len(python_probes):]
                    if lib_probes[:len(python_probes)] != python_probes:
                        bad = ("harness_probe_mismatch", "{} vs {}".format(lib_probes, python_probes))
                    elif not set(phase2) <= set(python_probes):
                        bad = ("message_building_evaluated_skipped_operand", "Python evaluated probes {} but message building evaluated {}".format(
                            python_probes, phase2))
                if bad:
                    acc.violation(core.Violation(PROP, bad[0], feats, "guard {!r} with {}: {}".format(g, {k: val[k] for k in expr.free_params(g)}, bad[1]),
                                                 spec={"part": "guard", "guard": g, "valuation": vi, "err": err},
                                                 script="import icontract\n# @icontract.require(lambda ...: {})\n".format(g)))
        acc.sample({"part": "guard", "guards": len(GUARDS), "valuations": len(vals)}, cap=1)
    finally:
        core.unload_source(ns)


# ---------------------------------------------------------------------------------------------
# (c) layouts

CONDS = ["x > 3", "len(xs) > 2 and xs[0] == x", "all(v > x for v in xs)"]


def layouts():
    """Each layout: (name, function(decorator_name, cond, desc) -> list of source lines for ONE decorator)."""
    L = []
    L.append(("one_line", lambda d, c, desc: ["@{}(lambda x, xs: {})".format(d, c)]))
    L.append(("one_line_desc_pos", lambda d, c, desc: ["@{}(lambda x, xs: {}, {!r})".format(d, c, desc)]))
    L.append(("one_line_desc_kw", lambda d, c, desc: ["@{}(lambda x, xs: {}, description={!r})".format(d, c, desc)]))
    L.append(("lambda_next_line", lambda d, c, desc: ["@{}(".format(d), "    lambda x, xs: {})".format(c)]))
    L.append(("lambda_next_line_closing_own", lambda d, c, desc: ["@{}(".format(d), "    lambda x, xs: {}".format(c), ")"]))
    L.append(("body_many_lines", lambda d, c, desc: ["@{}(".format(d), "    lambda x, xs:", "        (", "            {}".format(c), "        ),", "    description={!r},".format(desc), ")"]))
    L.append(("kw_condition_first", lambda d, c, desc: ["@{}(condition=lambda x, xs: {}, description={!r})".format(d, c, desc)]))
    L.append(("kw_condition_last", lambda d, c, desc: ["@{}(description={!r}, condition=lambda x, xs: {})".format(d, desc, c)]))
    L.append(("kw_condition_middle", lambda d, c, desc: ["@{}(description={!r}, condition=lambda x, xs: {}, enabled=True)".format(d, desc, c)]))
    L.append(("kw_multi_line", lambda d, c, desc: ["@{}(".format(d), "    description={!r},".format(desc), "    condition=lambda x, xs: {},".format(c), "    enabled=True,", ")"]))
    L.append(("trailing_comment", lambda d, c, desc: ["@{}(lambda x, xs: {})  # a trailing comment with ) and lambda".format(d, c)]))
    L.append(("interleaved_comment", lambda d, c, desc: ["@{}(".format(d), "    # a comment line", "    lambda x, xs: {},  # trailing".format(c), "    # another", ")"]))
    L.append(("comment_after_decorator", lambda d, c, desc: ["@{}(lambda x, xs: {})".format(d, c), "# an aligned comment between decorator and def"]))
    L.append(("comment_column0_after", lambda d, c, desc: ["@{}(lambda x, xs: {})".format(d, c), "<COL0># a comment at column 0"]))
    L.append(("comment_column0_inside", lambda d, c, desc: ["@{}(".format(d), "<COL0># a comment at column 0", "    lambda x, xs: {})".format(c)]))
    L.append(("blank_line_before_def", lambda d, c, desc: ["@{}(lambda x, xs: {})".format(d, c), ""]))
    # continuation lines that start with identifiers which merely BEGIN like the keywords ending a decorator
    L.append(("continuation_starts_like_def", lambda d, c, desc: ["@{}(".format(d), "    lambda x, xs:", "    defined(x) and", "    classes_ok(xs) and",
                                                                  "    async_def_ok(x) and", "    {},".format(c), "    description={!r})".format(desc)]))
    L.append(("continuation_starts_like_decorator", lambda d, c, desc: ["@{}(".format(d), "    lambda x, xs: (M", "    @M or", "    {}))".format(c)]))
    # a multi-line string literal inside the condition: its lines are no source lines (their indentation and their look
    # must not matter, and the text shown must still parse to the expression that was evaluated)
    L.append(("string_line_at_column0", lambda d, c, desc: ["@{}(lambda x, xs: 'z' != \"\"\"a".format(d), "<COL0>b\"\"\" and ({}))".format(c)]))
    L.append(("string_line_like_comment", lambda d, c, desc: ["@{}(lambda x, xs: 'z' != \"\"\"a".format(d), "    # b\"\"\" and ({}))".format(c)]))
    L.append(("string_line_indented", lambda d, c, desc: ["@{}(lambda x, xs: 'z' != \"\"\"a".format(d), "    b\"\"\" and ({}))".format(c)]))
    # a plain string literal continued with a backslash: the continuation line belongs to the literal as well
    L.append(("string_backslash_continued", lambda d, c, desc: ["@{}(lambda x, xs: 'z' != 'a\\".format(d), "    b' and ({}))".format(c)]))
    L.append(("string_backslash_continued_column0", lambda d, c, desc: ["@{}(lambda x, xs: 'z' != 'a\\".format(d), "<COL0>b' and ({}))".format(c)]))
    # legal spellings of the decorator line itself
    L.append(("space_after_at", lambda d, c, desc: ["@ {}(lambda x, xs: {})".format(d, c)]))
    L.append(("parenthesised_decorator", lambda d, c, desc: ["@({}(lambda x, xs: {}))".format(d, c)]))
    L.append(("parenthesised_many_lines", lambda d, c, desc: ["@(", "    {}(".format(d), "        lambda x, xs: {}".format(c), "    )", ")"]))
    # a line inside a string literal of the decorator which looks like the start of a decorator
    L.append(("at_line_in_description", lambda d, c, desc: ["@{}(".format(d), "    description=\"\"\"the description", "    @see the manual\"\"\",",
                                                            "    condition=lambda x, xs: {})".format(c)]))
    # ... or like the statement which ends the decorators (after the line of the lambda)
    L.append(("def_line_in_description", lambda d, c, desc: ["@{}(".format(d), "    condition=lambda x, xs: {},".format(c), "    description=\"\"\"the description",
                                                             "    def is no statement here", "    class neither\"\"\")"]))
    # continuation lines whose indentation has nothing in common with the one of the decorator line (legal inside parentheses)
    L.append(("continuation_at_column0", lambda d, c, desc: ["@{}(lambda x, xs:".format(d), "<COL0>{})".format(c)]))
    L.append(("continuation_tabs", lambda d, c, desc: ["@{}(".format(d), "<COL0>\t\tlambda x, xs:", "<COL0>\t\t{})".format(c)]))
    L.append(("continuation_formfeed", lambda d, c, desc: ["@{}(".format(d), "<COL0>\flambda x, xs: {})".format(c)]))
    # a nested f-string inside a multi-line f-string
    L.append(("string_nested_fstring", lambda d, c, desc: ["@{}(lambda x, xs: 'z' != f\"\"\"{{f'{{1}}'}}a".format(d), "    b\"\"\" and ({}))".format(c)]))
    # the lambda has parameters of its own whose default values contain a colon (dict display, slice, nested lambda)
    L.append(("lambda_default_with_colon", lambda d, c, desc: ["@{}(lambda x, xs, table={{'k': 1}}, tail=CL7[1:], key=lambda v: v: {})".format(d, c)]))
    L.append(("lambda_default_with_colon_many_lines", lambda d, c, desc: ["@{}(".format(d), "    condition=lambda x, xs,", "    table={'k': 1}, tail=CL7[1:]:", "    {},".format(c),
                                                                         "    description={!r})".format(desc)]))
    L.append(("error_kw_after", lambda d, c, desc: ["@{}(lambda x, xs: {}, error=MyErr)".format(d, c)]))
    return L


NEIGHBOURS = ["none", "icontract_above", "icontract_below", "foreign_above", "foreign_below", "both"]
SCOPES = ["module", "class", "nested_class", "nested_function"]
TARGETS = ["def", "async def", "class"]
# legal but unusual spellings of the statement which follows the decorators
ODD_TARGETS = ["def_tab", "async_backslash", "async_two_blanks", "class_tab"]
ALIASES = ["icontract.require", "req", "ic.require", "icontract.ensure", "icontract.invariant", "\u00e9tat.require"]


def render_layout(layout_fn, alias, cond, neighbours, scope, target):
    desc = "the description"
    is_inv = alias.endswith("invariant")
    role = "invariant" if is_inv else ("ensure" if alias.endswith("ensure") else "require")
    c = cond
    if is_inv:
        c = c06.to_self(cond)
    deco = layout_fn(alias, c, desc)
    if any("defined(x)" in ln for ln in deco):
        c = "defined(x) and classes_ok(xs) and async_def_ok(x) and " + c
        if is_inv:
            deco = [ln.replace("defined(x)", "defined(self.x)").replace("classes_ok(xs)", "classes_ok(self.xs)").replace("async_def_ok(x)", "async_def_ok(self.x)") for ln in deco]
            c = c.replace("defined(x)", "defined(self.x)").replace("classes_ok(xs)", "classes_ok(self.xs)").replace("async_def_ok(x)", "async_def_ok(self.x)")
    if any("@M or" in ln for ln in deco):
        c = "(M @ M or " + c + ")"
    string_layout = len(deco) == 2 and '"""' in deco[0] and deco[0].endswith("a")
    nested_fstring_layout = string_layout and "{f'{1}'}" in deco[0]
    description_with_at = any("@see the manual" in ln for ln in deco)
    description_with_def = any("def is no statement here" in ln for ln in deco)
    backslash_layout = len(deco) == 2 and deco[0].endswith("'a\\")
    if is_inv:
        deco = [ln.replace("lambda x, xs:", "lambda self:").replace("lambda x, xs,", "lambda self,") for ln in deco]
    other_i = "@icontract.invariant(lambda self: True)" if is_inv else "@icontract.require(lambda x: True)"
    above, below = [], []
    if neighbours in ("icontract_above", "both"):
        above.append(other_i)
    if neighbours in ("foreign_above", "both") and not is_inv:
        above.append("@fw")
    if neighbours in ("icontract_below", "both"):
        below.append(other_i.replace("True", "1 == 1"))
    if neighbours in ("foreign_below",) and not is_inv:
        below.append("@fw")
    if is_inv or target in ("class", "class_tab"):
        if not is_inv:
            return None
        tgt = ["class\tK:" if target == "class_tab" else "class K:", "    def __init__(self, x, xs):", "        self.x = x", "        self.xs = xs"]
        call = "K(X, XS)"
    elif target in ("async def", "async_backslash", "async_two_blanks"):
        tgt = {"async def": ["async def f(x, xs):"], "async_backslash": ["async \\", "    def f(x, xs):"],
               "async_two_blanks": ["async  def f(x, xs):"]}[target] + ["    return 1"]
        call = "RUN(f(X, XS))"
    elif target == "def_tab":
        tgt = ["def\tf(x, xs):", "    return 1"]
        call = "f(X, XS)"
    else:
        tgt = ["def f(x, xs):", "    return 1"]
        call = "f(X, XS)"
    block = above + deco + below + tgt
    hdr = ["import functools", "import icontract", "import icontract as ic", "import icontract as \u00e9tat", "req = icontract.require", "class MyErr(Exception): pass",
           "CL7 = [7, 7, 7]", "def defined(v): return True", "def classes_ok(v): return True", "def async_def_ok(v): return True",
           "class _M:", "    def __matmul__(self, other): return 0", "    def __repr__(self): return 'M'", "M = _M()",
           "def fw(fn):", "    @functools.wraps(fn)", "    def w(*a, **k):", "        return fn(*a, **k)", "    return w",
           "def RUN(c):", "    try:", "        while True: c.send(None)", "    except StopIteration as s:", "        return s.value", ""]
    ind = {"module": 0, "class": 1, "nested_class": 2, "nested_function": 1}[scope]
    pad = "    " * ind
    if description_with_at:
        desc = "the description\n" + pad + "    @see the manual"
    if description_with_def:
        desc = "the description\n" + pad + "    def is no statement here\n" + pad + "    class neither"
    if string_layout:
        # the value of the literal: everything between the quotes as it stands in the file
        second = deco[1]
        tail = second[len("<COL0>"):] if second.startswith("<COL0>") else pad + second
        if nested_fstring_layout:
            c = "'z' != f{!r} and ({})".format("{f'{1}'}a\n" + tail.split('"""')[0], c)
        else:
            c = "'z' != {!r} and ({})".format("a\n" + tail.split('"""')[0], c)
    if backslash_layout:
        second = deco[1]
        tail = second[len("<COL0>"):] if second.startswith("<COL0>") else pad + second
        c = "'z' != {!r} and ({})".format("a" + tail.split("'")[0], c)
    body = [(ln.replace("<COL0>", "") if ln.startswith("<COL0>") else (pad + ln if ln else "")) for ln in block]
    name = "K" if (is_inv) else "f"
    if scope == "module":
        src = hdr + body + ["TARGET = {}".format(name)]
        expected_scope = "<module>"
    elif scope == "class":
        src = hdr + ["class Outer:"] + body + ["TARGET = Outer.{}".format(name)]
        expected_scope = "Outer"
    elif scope == "nested_class":
        src = hdr + ["class Outer:", "    class Inner:"] + body + ["TARGET = Outer.Inner.{}".format(name)]
        expected_scope = "Inner"
    else:
        src = hdr + ["def outer():"] + body + [pad + "return {}".format(name), "TARGET = outer()"]
        expected_scope = "outer"
    first = len(hdr) + (1 if scope in ("class", "nested_function") else 2 if scope == "nested_class" else 0) + len(above) + 1
    span = (first, first + len(deco) - 1)
    if scope in ("class", "nested_class") and not is_inv:
        # functions defined in a class body: call through the class as a plain function
        call = call.replace("f(", "TARGET(")
    else:
        call = call.replace("f(", "TARGET(").replace("K(", "TARGET(")
    return "\n".join(src) + "\n", span, expected_scope, role, c, desc, call


def layout_cases(tier):
    out = []
    lays = layouts()
    for li, (lname, lfn) in enumerate(lays):
        for ai, alias in enumerate(ALIASES):
            for ni, neigh in enumerate(NEIGHBOURS):
                for si, scope in enumerate(SCOPES):
                    for ti, target in enumerate(TARGETS):
                        if tier == "quick" and (li + ai + ni + si + ti) % 3 != 0:
                            continue
                        for ci, cond in enumerate(CONDS):
                            if tier == "quick" and ci != (li + ni) % 3:
                                continue
                            out.append((lname, alias, cond, neigh, scope, target))
    for lname in ("one_line", "body_many_lines", "comment_after_decorator"):
        for alias in ALIASES:
            for neigh in ("none", "both"):
                for scope in SCOPES:
                    for target in ODD_TARGETS:
                        out.append((lname, alias, CONDS[(len(out)) % 3], neigh, scope, target))
    return out


def check_layout(case, acc, lay_by_name):
    import icontract

    lname, alias, cond, neigh, scope, target = case
    r = render_layout(lay_by_name[lname], alias, cond, neigh, scope, target)
    if r is None:
        return
    src, span, exp_scope, role, ctext, desc, call = r
    has_desc = "description" in src.split("TARGET")[0].split("class MyErr")[1] and ("{!r}".format(desc) in src)
    feats = {"part": "layout", "layout": lname, "alias": alias, "neighbours": neigh, "scope": scope, "target": target, "role": role}
    key = json.dumps(case)
    try:
        ns = core.fresh_ctx_run(core.load_source, src, "c07l")
    except Exception as e:
        acc.case(("def", key), True, 1, "def_error")
        acc.violation(core.Violation(PROP, "layout_definition_failed", feats, repr(e), spec={"part": "layout", "case": list(case)}, script=src))
        return
    try:
        X, XS = 1, [1, 0]  # falsifies all three conditions
        exc = None
        try:
            core.fresh_ctx_run(eval, call, dict(ns, X=X, XS=XS))
        except BaseException as ex:  # noqa
            exc = ex
        acc.case(key, True, 1, type(exc).__name__ if exc else "ret")
        want = ns["MyErr"] if lname == "error_kw_after" else icontract.ViolationError
        bad = None
        if type(exc) is not want:
            bad = ("violation_replaced_by_other_exception", "expected {} got {!r} (cause {!r})".format(want.__name__, exc, getattr(exc, "__cause__", None)))
        else:
            msg = str(exc.args[0])
            m = re.match(r"File (\S+), line (\d+) in ([^\n:]+):\n", msg)
            if not m:
                bad = ("location_missing", msg[:200])
            elif m.group(1) != ns["__file__"] or not (span[0] <= int(m.group(2)) <= span[1]):
                bad = ("location_wrong", "line {} reported, the decorator spans lines {}-{}".format(m.group(2), span[0], span[1]))
            elif m.group(3) != exp_scope:
                bad = ("location_scope", "{!r} expected {!r}".format(m.group(3), exp_scope))
            else:
                rest = msg.split("\n", 1)[1]
                if has_desc and desc in src and not rest.startswith(desc + ": ") and "description" in lname or (lname in ("one_line_desc_pos", "one_line_desc_kw", "body_many_lines", "kw_condition_first", "kw_condition_last", "kw_condition_middle", "kw_multi_line", "continuation_starts_like_def", "at_line_in_description", "def_line_in_description", "lambda_default_with_colon_many_lines") and not rest.startswith(desc + ": ")):
                    bad = ("description_missing", rest[:120])
                else:
                    if rest.startswith(desc + ": "):
                        rest = rest[len(desc) + 2:]
                    # the condition text is everything up to the first ':' that leaves a parsable expression
                    got = None
                    for mm in re.finditer(r":(\n|$| )", rest):
                        cand = rest[: mm.start()]
                        try:
                            tree = ast.parse("(" + cand.strip() + ")", mode="eval")
                            got = cand
                            if ast.dump(tree) == ast.dump(ast.parse(ctext, mode="eval")):
                                break
                        except SyntaxError:
                            continue
                    if got is None or ast.dump(ast.parse("(" + got.strip() + ")", mode="eval")) != ast.dump(ast.parse(ctext, mode="eval")):
                        bad = ("condition_text_differs", "reported {!r} for {!r}".format(got, ctext))
        if bad:
            acc.violation(core.Violation(PROP, bad[0], feats, "{}: {}".format(case, bad[1]), spec={"part": "layout", "case": list(case)}, script=src))
        acc.sample({"part": "layout", "case": list(case)}, cap=1)
    finally:
        core.unload_source(ns)


# ---------------------------------------------------------------------------------------------
# (d) a module edited and loaded again under the SAME file name: histories of versions whose lambda starts on the same line

RELOAD_VERSIONS = [
    ("x > 0", "", -5),
    ("x is None or x > 100", ", 'x must be absent or large'", 5),
    ("len(x) > 3 and x[0] == 1", "", [2]),
    ("x is not None and x.real > 1000", "", 7),
]


def check_reload(acc):
    import itertools
    import linecache
    import os

    import icontract

    fname = "/verif-gen/c07_reload_{}.py".format(os.getpid())
    for hist in list(itertools.permutations(range(len(RELOAD_VERSIONS)), 2)) + list(itertools.permutations(range(len(RELOAD_VERSIONS)), 3)):
        msgs = []
        bad = None
        for step, vi in enumerate(hist):
            text, desc, arg = RELOAD_VERSIONS[vi]
            src = "import icontract\n\n@icontract.require(lambda x: {}{})\ndef f(x):\n    return x\n".format(text, desc)
            linecache.cache[fname] = (len(src), None, src.splitlines(True), fname)
            ns = {"__name__": "c07_reload", "__file__": fname}

            def go():
                exec(compile(src, fname, "exec"), ns)
                try:
                    ns["f"](arg)
                    return None
                except BaseException as e:  # noqa
                    return e
            exc = core.fresh_ctx_run(go)
            msgs.append(str(exc))
            if type(exc) is not icontract.ViolationError:
                bad = ("violation_replaced_by_other_exception", "step {}: version {!r} violated with x={!r}: expected ViolationError got {!r}".format(step, text, arg, exc))
            elif text not in str(exc):
                bad = ("stale_condition_text", "step {}: the module now holds {!r} but the message is {!r}".format(step, text, str(exc)))
            else:
                for vj, (other, _, _) in enumerate(RELOAD_VERSIONS):
                    if vj != vi and other in str(exc):
                        bad = ("stale_condition_text", "step {}: the message for {!r} carries the text of an earlier version: {!r}".format(step, text, str(exc)))
            if bad:
                break
        linecache.cache.pop(fname, None)
        acc.case(("reload", hist), True, len(hist), "bad" if bad else "ok")
        if bad:
            acc.violation(core.Violation(PROP, bad[0], {"part": "reload", "history": "/".join(map(str, hist))},
                                         "history of versions {} loaded under one file name: {}".format([RELOAD_VERSIONS[i][0] for i in hist], bad[1]),
                                         spec={"part": "reload", "history": list(hist)}))
    acc.sample({"part": "reload", "versions": [v[0] for v in RELOAD_VERSIONS]}, cap=1)


# ---------------------------------------------------------------------------------------------
# (e) conditions that are not plain functions: bound methods, callable objects, functools.partial objects

KINDS_SRC = '''\
import functools
import icontract
class MyErr(Exception): pass
T = {"v": False}
LOG = []
def named(x):
    LOG.append("named")
    return T["v"]
class Obj:
    def meth(self, x):
        LOG.append("meth")
        return T["v"]
    def __call__(self, x):
        LOG.append("call")
        return T["v"]
    @staticmethod
    def smeth(x):
        LOG.append("smeth")
        return T["v"]
    @classmethod
    def cmeth(cls, x):
        LOG.append("cmeth")
        return T["v"]
def two(x, lim):
    LOG.append("two")
    return T["v"]
def two_first(lim, x):
    LOG.append("two_first")
    return T["v"]
CONDS = {
    "named_function": named,
    "bound_method": Obj().meth,
    "callable_object": Obj(),
    "static_method": Obj.smeth,
    "class_method": Obj.cmeth,
    "partial_keyword": functools.partial(two, lim=5),
    "partial_positional": functools.partial(two_first, 5),
    "partial_of_partial": functools.partial(functools.partial(two, lim=5)),
    "partial_of_callable_object": functools.partial(Obj()),
}
def make(role, cond, err):
    kw = {} if err is None else {"error": err}
    if role == "require":
        @icontract.require(cond, **kw)
        def f(x):
            return 1
        return lambda: f(3)
    if role == "ensure":
        @icontract.ensure(cond, **kw)
        def h(x):
            return 1
        return lambda: h(3)
    raise ValueError(role)
'''


def check_condition_kinds(acc):
    import icontract

    ns = core.load_source(KINDS_SRC, "c07k")
    try:
        for name in sorted(ns["CONDS"]):
            for role in ("require", "ensure"):
                for err in (None, "MyErr"):
                    for truth in (True, False):
                        def go():
                            ns["T"]["v"] = truth
                            del ns["LOG"][:]
                            call = ns["make"](role, ns["CONDS"][name], ns[err] if err else None)
                            try:
                                return ("ret", call())
                            except BaseException as e:  # noqa
                                return ("exc", e)
                        try:
                            out = core.fresh_ctx_run(go)
                        except BaseException as e:  # noqa
                            out = ("decorate_exc", e)
                        evaluated = len(ns["LOG"])
                        acc.case(("kind", name, role, err, truth), True, evaluated, out[0] if out[0] != "exc" else type(out[1]).__name__)
                        want_cls = icontract.ViolationError if err is None else ns["MyErr"]
                        bad = None
                        if truth:
                            if out != ("ret", 1) or evaluated != 1:
                                bad = ("satisfied_contract_failed", "condition holds but the call gave {!r} ({} evaluations)".format(out, evaluated))
                        else:
                            if out[0] != "exc" or type(out[1]) is not want_cls:
                                bad = ("violation_replaced_by_other_exception", "condition is falsy: expected {} got {!r}".format(want_cls.__name__, out[1]))
                            elif "0x" in str(out[1]):
                                bad = ("message_carries_an_address", "the message names the condition by an address: {!r}".format(str(out[1])))
                        if bad:
                            acc.violation(core.Violation(PROP, bad[0], {"part": "condition_kind", "kind": name, "role": role, "err": err or "default"},
                                                         "condition given as {} on {}: {}".format(name, role, bad[1]),
                                                         spec={"part": "kinds"}, script=KINDS_SRC))
        acc.sample({"part": "condition_kinds", "kinds": sorted(ns["CONDS"])}, cap=1)
    finally:
        core.unload_source(ns)


# ---------------------------------------------------------------------------------------------
# (f) conditions written in a class body that name private (name-mangled) attributes

PRIVATE_SRC = '''\
import icontract
class MyErr(Exception): pass
class K:
    __limit = 5
    def __init__(self, c, items):
        self.__c = c
        self.__items = items
    @icontract.require(lambda self: self.__c > K.__limit)
    def pre_default(self):
        return 1
    @icontract.require(lambda self: self.__c > 5, error=MyErr)
    def pre_class(self):
        return 1
    @icontract.ensure(lambda self, result: result < self.__c and len(self.__items) > 0)
    def post_default(self):
        return 1
    @icontract.require(lambda self: all(v < self.__c for v in self.__items))
    def pre_all(self):
        return 1
    @icontract.require(lambda self, __x: __x > self.__c)
    def pre_private_parameter(self, __x):
        return 1
class _Hidden:
    def __init__(self):
        self.__v = 0
    @icontract.require(lambda self: self.__v > 0)
    def m(self):
        return 1
'''
PRIVATE_CASES = [
    ("pre_default", lambda ns: ns["K"](1, []).pre_default(), None, ["self.__c", "K.__limit"]),
    ("pre_class", lambda ns: ns["K"](1, []).pre_class(), "MyErr", ["self.__c"]),
    ("post_default", lambda ns: ns["K"](0, [1]).post_default(), None, ["self.__c"]),
    ("pre_all", lambda ns: ns["K"](2, [1, 7]).pre_all(), None, ["self.__c", "self.__items"]),
    ("pre_private_parameter", lambda ns: ns["K"](9, []).pre_private_parameter(3), None, ["self.__c"]),
    ("class_with_leading_underscore", lambda ns: ns["_Hidden"]().m(), None, ["self.__v"]),
]


def check_private_names(acc):
    import icontract

    ns = core.load_source(PRIVATE_SRC, "c07p")
    try:
        for name, thunk, err, must_show in PRIVATE_CASES:
            def go():
                try:
                    return ("ret", thunk(ns))
                except BaseException as e:  # noqa
                    return ("exc", e)
            out = core.fresh_ctx_run(go)
            want_cls = icontract.ViolationError if err is None else ns[err]
            acc.case(("private", name), True, 1, out[0] if out[0] != "exc" else type(out[1]).__name__)
            bad = None
            if out[0] != "exc" or type(out[1]) is not want_cls:
                bad = ("violation_replaced_by_other_exception", "expected {} got {!r} (cause {!r})".format(
                    want_cls.__name__, out[1], getattr(out[1], "__cause__", None)))
            else:
                missing = [t for t in must_show if (t + " was ") not in str(out[1])]
                if missing and err is None:
                    bad = ("private_value_not_listed", "the message does not list {}: {!r}".format(missing, str(out[1])))
            if bad:
                acc.violation(core.Violation(PROP, bad[0], {"part": "private_names", "case": name},
                                             "condition naming a private attribute in a class body ({}): {}".format(name, bad[1]),
                                             spec={"part": "private"}, script=PRIVATE_SRC))
        acc.sample({"part": "private_names", "cases": [c[0] for c in PRIVATE_CASES]}, cap=1)
    finally:
        core.unload_source(ns)


# ---------------------------------------------------------------------------------------------
# (g) conditions with argument unpacking / computed format specs which the re-computation must survive

SPECIAL_SRC = '''\
import icontract
def g(**kw):
    return len(kw)
class M:
    """the minimal mapping which ** accepts"""
    def keys(self):
        return ['a']
    def __getitem__(self, key):
        return 1
    def __repr__(self):
        return "M()"
@icontract.require(lambda xs: [(d := {'a': v}) for v in xs] and g(**d) > 5)
def kwargs_bound_in_comprehension(xs):
    return 1
@icontract.require(lambda m: g(**m) > 5)
def kwargs_minimal_mapping(m):
    return 1
@icontract.require(lambda m: len({**m}) > 5)
def display_minimal_mapping(m):
    return 1
@icontract.require(lambda x, fill: f"{x:{fill}>5}" == "")
def computed_fill(x, fill):
    return 1
@icontract.require(lambda x, fill: f"{x!r:{fill}^7}" == "")
def computed_fill_conversion(x, fill):
    return 1
'''
SPECIAL_CASES = [
    ("kwargs_bound_in_comprehension", lambda ns: ns["kwargs_bound_in_comprehension"]([1, 2]), ["xs"]),
    ("kwargs_minimal_mapping", lambda ns: ns["kwargs_minimal_mapping"](ns["M"]()), ["m", "g(**m)"]),
    ("display_minimal_mapping", lambda ns: ns["display_minimal_mapping"](ns["M"]()), ["m"]),
    ("computed_fill_open_brace", lambda ns: ns["computed_fill"](1, "{"), ["x", "fill"]),
    ("computed_fill_close_brace", lambda ns: ns["computed_fill"](1, "}"), ["x", "fill"]),
    ("computed_fill_plain", lambda ns: ns["computed_fill"](1, "*"), ["x", "fill"]),
    ("computed_fill_conversion_brace", lambda ns: ns["computed_fill_conversion"]("a", "{"), ["x", "fill"]),
]


def check_specials(acc):
    import icontract

    ns = core.load_source(SPECIAL_SRC, "c07s")
    try:
        for name, thunk, must_show in SPECIAL_CASES:
            def go():
                try:
                    return ("ret", thunk(ns))
                except BaseException as e:  # noqa
                    return ("exc", e)
            out = core.fresh_ctx_run(go)
            acc.case(("special", name), True, 1, out[0] if out[0] != "exc" else type(out[1]).__name__)
            bad = None
            if out[0] != "exc" or type(out[1]) is not icontract.ViolationError:
                bad = ("violation_replaced_by_other_exception", "expected ViolationError got {!r} (cause {!r})".format(
                    out[1], getattr(out[1], "__cause__", None)))
            else:
                missing = [t for t in must_show if (t + " was ") not in str(out[1])]
                if missing:
                    bad = ("argument_not_listed", "the message does not list {}: {!r}".format(missing, str(out[1])))
            if bad:
                acc.violation(core.Violation(PROP, bad[0], {"part": "specials", "case": name},
                                             "condition with unpacking / computed format spec ({}): {}".format(name, bad[1]),
                                             spec={"part": "specials"}, script=SPECIAL_SRC))
        acc.sample({"part": "specials", "cases": [c[0] for c in SPECIAL_CASES]}, cap=1)
    finally:
        core.unload_source(ns)


# ---------------------------------------------------------------------------------------------
# (h) the declaring module is not a plain file: imported from a zip archive (zipapp, pex), source reachable only through the loader

ZIP_MOD = '''\
import icontract
@icontract.require(lambda x: x > 0)
def pre(x):
    return x
@icontract.ensure(
    lambda result:
    result > 100)
def post(x):
    return x
@icontract.invariant(lambda self: self.x > 0)
class K:
    def __init__(self, x):
        self.x = x
    @icontract.require(lambda self, y: y > self.x)
    def m(self, y):
        return y
'''
ZIP_CASES = [
    ("pre", lambda m: m.pre(-1), "x > 0"),
    ("post", lambda m: m.post(1), "result > 100"),
    ("invariant", lambda m: m.K(-1), "self.x > 0"),
    ("method", lambda m: m.K(5).m(1), "y > self.x"),
]


def check_zip(acc):
    import importlib
    import linecache
    import shutil
    import sys
    import tempfile
    import zipfile
    import icontract

    tmp = tempfile.mkdtemp(prefix="verif_c07zip_")
    try:
        for cache_mode in ("as_imported", "linecache_cleared"):
            modname = "c07zipmod_{}".format(cache_mode)
            zpath = os.path.join(tmp, modname + ".zip")
            with zipfile.ZipFile(zpath, "w") as zf:
                zf.writestr(modname + ".py", ZIP_MOD)
            sys.path.insert(0, zpath)
            try:
                importlib.invalidate_caches()
                try:
                    mod = importlib.import_module(modname)
                except BaseException as e:  # noqa
                    acc.case(("zip", cache_mode, "import"), True, 1, type(e).__name__)
                    acc.violation(core.Violation(PROP, "class_definition_failed", {"part": "zip", "case": "import", "cache": cache_mode},
                                                 "importing a module with contracts from a zip archive failed: {!r}".format(e),
                                                 spec={"part": "zip"}, script=ZIP_MOD))
                    continue
                if cache_mode == "linecache_cleared":
                    linecache.clearcache()
                for name, thunk, text in ZIP_CASES:
                    def go():
                        try:
                            return ("ret", thunk(mod))
                        except BaseException as e:  # noqa
                            return ("exc", e)
                    out = core.fresh_ctx_run(go)
                    acc.case(("zip", cache_mode, name), True, 1, out[0] if out[0] != "exc" else type(out[1]).__name__)
                    bad = None
                    if out[0] != "exc" or type(out[1]) is not icontract.ViolationError:
                        bad = ("violation_replaced_by_other_exception", "expected ViolationError got {!r} (cause {!r})".format(
                            out[1], getattr(out[1], "__cause__", None)))
                    elif text not in str(out[1]) or not str(out[1]).startswith("File "):
                        bad = ("condition_text_differs", "the message does not carry the location and the text {!r}: {!r}".format(text, str(out[1])))
                    if bad:
                        acc.violation(core.Violation(PROP, bad[0], {"part": "zip", "case": name, "cache": cache_mode},
                                                     "module imported from a zip archive ({}, {}): {}".format(name, cache_mode, bad[1]),
                                                     spec={"part": "zip"}, script=ZIP_MOD))
            finally:
                sys.path.remove(zpath)
                sys.modules.pop(modname, None)
                sys.path_importer_cache.pop(zpath, None)
        acc.sample({"part": "zip", "cases": [c[0] for c in ZIP_CASES]}, cap=1)
    finally:
        shutil.rmtree(tmp, ignore_errors=True)


def work(args):
    import warnings
    warnings.simplefilter("ignore", SyntaxWarning)
    warnings.simplefilter("ignore", RuntimeWarning)
    acc = core.Acc()
    vals = expr.valuations()
    lay_by_name = dict(layouts())
    for kind, payload in args:
        if kind == "a":
            check_batch_a(payload, acc, vals)
        elif kind == "ax":
            check_batch_a(payload, acc, vals + expr.exotic_valuations())
        elif kind == "guards":
            check_guards(acc)
        elif kind == "reload":
            check_reload(acc)
        elif kind == "kinds":
            check_condition_kinds(acc)
        elif kind == "private":
            check_private_names(acc)
        elif kind == "specials":
            check_specials(acc)
        elif kind == "zip":
            check_zip(acc)
        else:
            for case in payload:
                check_layout(case, acc, lay_by_name)
    return acc.result()


def run(tier, t0):
    level = 2 if tier == "quick" else 3
    conds = c06.conditions(level)
    indexed = list(enumerate(conds))
    # as in C06: the depth<=2 conditions also run on the valuations with unusual __eq__ / truth values / comparison results
    small = {c[3] for c in c06.conditions(2)} if level > 2 else None
    ex = [it for it in indexed if small is None or it[1][3] in small]
    rest = [it for it in indexed if small is not None and it[1][3] not in small]
    items = [("ax", ex[i:i + c06.BATCH]) for i in range(0, len(ex), c06.BATCH)] + [("a", rest[i:i + c06.BATCH]) for i in range(0, len(rest), c06.BATCH)]
    items.append(("guards", None))
    items.append(("reload", None))
    items.append(("kinds", None))
    items.append(("private", None))
    items.append(("specials", None))
    items.append(("zip", None))
    lc = layout_cases(tier)
    items += [("layout", lc[i:i + 40]) for i in range(0, len(lc), 40)]
    tot = core.merge(core.pmap(work, core.rotate(items)))
    return core.finish(
        PROP, tier, tot, t0,
        rule="(a) the C06 condition set ({} conditions x falsifying valuations, roles require/ensure/invariant, error forms "
             "default/Exception class/BaseException class rotating): the caller gets exactly the configured error class, the "
             "message starts with 'File <file>, line <decorator line> in <scope>' and carries a condition text whose AST equals "
             "the generated expression; (b) {} guard conditions (later operands only defined when earlier ones hold: and/or "
             "chains, comparison chains, conditional expressions, filters of generator expressions, guards nested in calls, "
             "displays, f-strings, walrus) x 8 valuations with probes around the operands: the probes hit while the message is "
             "built must be a subset of those Python hit; (c) {} layout cases: 17 decorator layouts x 5 ways to name the "
             "decorator x 6 neighbour configurations x 4 scopes x def/async def/class x 3 conditions; "
             "(d) every history of 2-3 out of 4 versions of a module loaded under ONE file name (the lambda starts on the same line in all of them), "
             "each violated after loading: the message carries the text of the version just loaded; "
             "(e) conditions given as named function, bound/static/class method, callable object, functools.partial (keyword, positional, nested, of a "
             "callable object) x require/ensure x default error/error class x holds/falsy: a falsy condition surfaces as the configured error "
             "and the message carries no object address; (f) six conditions written in a class body that name private (name-mangled) attributes, "
             "class attributes and parameters: the violation surfaces as the configured error and the private values are listed; "
             "non-trivial = every falsifying case".format(len(conds), len(GUARDS), len(lc)),
        assumptions=["conditions are written as lambdas inside a decorator (the supported form)"],
        bounds={"conditions": len(conds), "guards": len(GUARDS), "layout_cases": len(lc)},
    )


def replay(path):
    data = json.load(open(path))["spec"]
    acc = core.Acc()
    if data["part"] == "layout":
        check_layout(tuple(data["case"]), acc, dict(layouts()))
    elif data["part"] == "guard":
        check_guards(acc)
    elif data["part"] == "reload":
        check_reload(acc)
    elif data["part"] == "kinds":
        check_condition_kinds(acc)
    elif data["part"] == "private":
        check_private_names(acc)
    elif data["part"] == "specials":
        check_specials(acc)
    elif data["part"] == "zip":
        check_zip(acc)
    else:
        idx = {"require": 0, "ensure": 7, "invariant": 9}[data["role"]]
        check_batch_a([(idx, ("?", data["cond"], 0, data["cond"]))], acc, expr.valuations() + expr.exotic_valuations())
    for v in acc.violations[:5]:
        print("VIOLATION property={} replay={}".format(PROP, path))
        print(" ", v.symptom, v.detail[:600])
    return 1 if acc.violations else 0
