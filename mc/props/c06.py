"""C06 - every value shown in a violation message is the value Python computes.

The typed expression grammar of mc/expr.py is enumerated exhaustively (depth 1, all parent/child pairs, thorough:
full binary products and depth-3 chains), each expression is placed in each falsifying frame and run on four
valuations; for every (condition, valuation) that CPython evaluates falsy the real violation message is parsed and
compared line by line with an independent recording of CPython's own evaluation of the same text."""
import ast
import inspect
import json

from .. import core, expr

PROP = "C06"
BATCH = 150


def conditions(level):
    """All (type, expression, frame index, condition text)."""
    out = []
    for typ, e in expr.all_expressions(level):
        for fi, frame in enumerate(expr.FRAMES):
            if level >= 3 and fi not in (0, 2, 5) and len(e) > 40:
                continue  # depth-3 material: three frames only
            out.append((typ, e, fi, frame.format(e)))
    # the condition has a parameter of its own (with a default value) that the decorated function does not have
    for typ, e in expr.all_expressions(1):
        for fj, frame in enumerate(expr.OWN_DEFAULT_FRAMES):
            out.append((typ, e, len(expr.FRAMES) + fj, frame.format(e)))
    return out


def to_self(text):
    """Rewrite the condition over the parameters into one over the attributes of ``self`` (for invariants)."""
    tree = ast.parse(text, mode="eval")
    stored = expr.walrus_targets(tree)
    outer = {id(n) for n in expr.outer_name_loads(tree)}   # (a loop variable may bear the name of a parameter read elsewhere)

    class T(ast.NodeTransformer):
        def visit_Name(self, node):
            if id(node) in outer and node.id in expr.PARAMS and node.id not in stored:
                return ast.copy_location(ast.Attribute(value=ast.Name(id="self", ctx=ast.Load()), attr=node.id, ctx=ast.Load()), node)
            return node
    return ast.unparse(T().visit(tree))


def role_of(index):
    r = index % 10
    if r == 7:
        return "ensure"
    if r == 9:
        return "invariant"
    return "require"


def render_batch(items, extra=None, prelude=""):
    """items: list of (index, role, condition text). ``extra``: index -> further decorator arguments (text).
    Returns module source."""
    extra = extra or {}
    w = ["import icontract\n", prelude, expr.GLOBALS_SRC,
         "class Holder:\n    def __init__(self, **kw):\n        self.__dict__.update(kw)\n    def __repr__(self):\n        return 'Holder()'\n",
         "def make():\n    C = 5\n    CL = [1]\n    LATE = 1\n    fs = {}\n"]
    # the functions also have parameters named like the globals G and GL (never parameters of a condition)
    allp = ", ".join(expr.PARAMS + ["{}={!r}".format(k, v) for k, v in expr.SHADOWING_ARGS.items()])
    for idx, role, cond in items:
        if role == "invariant":
            w.append("    @icontract.invariant(lambda self: {}{})\n    class K{}(Holder):\n        pass\n    fs[{}] = K{}\n".format(cond, extra.get(idx, ""), idx, idx, idx))
        else:
            # every third condition gives default values to its parameters; the call supplies all of them, so that a
            # default of the condition never applies (nor shows in a message)
            # (the defaulted parameters of the condition itself are keyword-only in every second condition)
            own = expr.own_default_params(cond)
            ps = ", ".join([p + ("=IMPOSSIBLE" if idx % 3 == 1 else "") for p in expr.free_params(cond)] + (["*"] if own and idx % 2 else []) + own)
            w.append("    @icontract.{}(lambda {}: {}{})\n    def f{}({}):\n        return 1\n    fs[{}] = f{}\n".format(
                role, ps, cond, extra.get(idx, ""), idx, allp, idx, idx))
    # LATE is unbound again when the functions are called: a condition may name it only where Python does not read it
    w.append("    del LATE\n    return fs\nFS = make()\n")
    return "".join(w)


def first_counterexample(node_text, env):
    """The first falsifying assignment of the loop variables of ``all(<genexp>)`` according to CPython."""
    call = ast.parse(node_text, mode="eval").body
    gen = call.args[0]
    names = []
    for g in gen.generators:
        for n in ast.walk(g.target):
            if isinstance(n, ast.Name) and n.id not in names:
                names.append(n.id)
    tup = ast.Tuple(elts=[ast.Tuple(elts=[ast.Name(id=n, ctx=ast.Load()) for n in names], ctx=ast.Load()), gen.elt], ctx=ast.Load())
    # a generator, consumed lazily: all() stops at the first falsy element and never evaluates the later ones
    lc = ast.Expression(body=ast.GeneratorExp(elt=tup, generators=gen.generators))
    ast.fix_missing_locations(lc)
    rows = eval(compile(lc, "<all>", "eval"), dict(env))
    for vals, elt in rows:
        if not elt:
            return list(zip(names, vals))
    return None


def judge(cond, role, rec, msg, call_args, a_repr, strict_none=True):
    """Compare one parsed message with the recording. Returns list of (symptom, detail)."""
    bad = []
    try:
        pm = expr.parse_message(msg, cond)
    except ValueError as e:
        return [("unparsable_message", "{}: {!r}".format(e, msg[:300]))]
    texts = {}
    for i, inf in enumerate(rec.info):
        if i in rec.values:
            texts.setdefault(inf["text"], []).extend(rec.values[i])
            if inf["target"]:
                texts.setdefault(inf["target"], []).extend(rec.values[i])
    shown = {}
    for text, val in pm.lines:
        if text in shown:
            bad.append(("duplicate_line", text))
        shown[text] = val
        ok = False
        if text in texts and text in expr.SHADOWING_ARGS and not getattr(rec, "comp_walrus", None) and any(
                i in rec.values and inf["text"] == text and not inf["in_fstring"] for i, inf in enumerate(rec.info)):
            # (with a name bound by a named expression inside a comprehension, later operands may be left out altogether -
            #  KF-C06-3 - and the line is then the function argument)
            # (names evaluated only inside an f-string are not listed at all, KF-C06-2; the line is then the function argument)
            # Python evaluated this name inside the condition, where it is the module global: that value counts, not the function
            # argument of the same name (which the condition does not take as a parameter)
            ok = any(a_repr.repr(v) == val for v in texts[text])
        else:
            if text in call_args and a_repr.repr(call_args[text]) == val:
                ok = True
            if not ok and text in texts:
                ok = any(a_repr.repr(v) == val for v in texts[text])
        if not ok and text not in texts and (text not in call_args or text in expr.SHADOWING_ARGS):
            # Sub-expressions written inside a comprehension which Python did not evaluate for this call (no iteration
            # reached them) but whose value is well defined: accepted iff the shown value is what evaluating that very
            # sub-expression in the environment of the call gives.
            for inf in rec.info:
                if inf["in_comp"] and (inf["text"] == text or inf["target"] == text):
                    try:
                        v = eval(compile(ast.parse("(" + inf["text"] + ")", mode="eval"), "<sub>", "eval"), dict(rec.env))
                    except Exception:
                        continue
                    if a_repr.repr(v) == val:
                        ok = True
                        break
        if not ok:
            if text not in texts and text not in call_args:
                known_unevaluated = any(inf["text"] == text for inf in rec.info)
                bad.append(("line_for_unevaluated_expression" if known_unevaluated else "line_names_no_subexpression",
                            "{!r} was {} - {}".format(text, val, "Python did not evaluate this sub-expression" if known_unevaluated else "not a sub-expression nor an argument")))
            else:
                want = [a_repr.repr(v) for v in texts.get(text, [])] + ([a_repr.repr(call_args[text])] if text in call_args else [])
                bad.append(("wrong_value_shown", "{!r} shown as {} but Python computed {}".format(text, val, sorted(set(want)))))
    for text, items in pm.all_blocks:
        shown[text] = "<all-block>"
        vals = texts.get(text)
        if not vals or vals[-1] is not False and vals[-1]:
            bad.append(("all_block_for_true_quantifier", text))
            continue
        env = dict(call_args)
        env.update(rec.env)
        node = ast.parse(text, mode="eval").body
        if not (isinstance(node, ast.Call) and isinstance(node.func, ast.Name) and node.func.id == "all" and len(node.args) == 1
                and isinstance(node.args[0], ast.GeneratorExp)):
            continue  # the falsy all() travelled through an enclosing call (e.g. ident(all(...))): value False is right, example not judged
        want = first_counterexample(text, env)
        got = [(n, v) for n, v in items]
        if want is None or [(n, a_repr.repr(v)) for n, v in want] != got:
            bad.append(("not_the_first_counterexample", "{}: shown {} but the first falsifying assignment is {}".format(text, got, want)))
    # completeness
    none_bound = any(call_args.get(p) is None for p in (expr.free_params(cond) if role != "invariant" else []))
    for name, v in call_args.items():
        if expr.representable(v) and name not in shown:
            bad.append(("argument_not_listed", name))
    if not (none_bound and not strict_none):
        for i, inf in enumerate(rec.info):
            if i not in rec.values or inf["in_comp"]:
                continue
            if inf["type"] not in ("Name", "Attribute", "Call", "Subscript", "ListComp", "SetComp", "DictComp"):
                continue
            v = rec.values[i][-1]
            if not expr.representable(v):
                continue
            if inf["type"] == "Name" and inf["id"] not in rec.resolvable:
                continue
            if inf["text"] not in shown:
                where = "plain"
                # inside an f-string nothing is listed (KF-C06-2), whatever else the node is
                cw = getattr(rec, "comp_walrus", ())
                reads_cw = False
                if cw and inf["type"] != "Name":
                    try:
                        reads_cw = any(isinstance(n, ast.Name) and n.id in cw for n in ast.walk(ast.parse("(" + inf["text"] + ")", mode="eval")))
                    except SyntaxError:
                        reads_cw = False
                if (inf["type"] == "Name" and inf["id"] in cw) or reads_cw:
                    # bound by a named expression inside a comprehension: the re-computation runs the comprehension as compiled
                    # code and can not retrieve the binding (KF-C06-3); the name must then not be listed with another value
                    where = "name_bound_by_walrus_inside_comprehension"
                elif inf.get("in_fstring"):
                    where = "inside_fstring"
                elif inf.get("in_first_iter"):
                    where = "first_iterable_of_comprehension"
                bad.append(("evaluated_subexpression_not_listed", "{} {!r} = {!r} [{}]".format(inf["type"], inf["text"], v, where), where))
    return bad


def node_level(ns_cond, rec, call_args):
    """Compare icontract._recompute.Visitor.recomputed_values (every node the library re-computed, shown or not) with the
    recorder. Returns list of (symptom, detail). Tolerant: returns [] if the internal API is not there."""
    try:
        import icontract._represent as rp
        import icontract._recompute as rc
        insp = rp.inspect_lambda_condition(condition=ns_cond)
        lookup = rp.collect_variable_lookup(condition=ns_cond, resolved_kwargs=call_args)
        # mirror repr_values: the targets of named expressions are local to the lambda, never closure/global variables
        local_names = {n.target.id for n in ast.walk(insp.node.body) if isinstance(n, ast.NamedExpr) and isinstance(n.target, ast.Name)}
        if local_names:
            params = set(inspect.signature(ns_cond).parameters)
            lookup = [lk if i < 2 else {k: v for k, v in lk.items() if k not in local_names or k in params} for i, lk in enumerate(lookup)]
        try:
            visitor = rc.Visitor(variable_lookup=lookup, mangled_names=rp._collect_mangled_names(condition=ns_cond))
        except (TypeError, AttributeError):
            visitor = rc.Visitor(variable_lookup=lookup)
    except Exception:
        return []
    try:
        visitor.visit(node=insp.node.body)
    except Exception as e:
        return [("recomputation_raised", "{!r}".format(e))]
    values = getattr(visitor, "recomputed_values", None)
    if not isinstance(values, dict):
        return []
    bad = []
    # recorder nodes by (type, text); in_comp nodes are evaluated many times / by compiled code: judged by membership
    by_key = {}
    for i, inf in enumerate(rec.info):
        by_key.setdefault((inf["type"], inf["text"]), []).append(i)
    for node, v in values.items():
        if not isinstance(node, ast.expr) or isinstance(node, (ast.Slice,)):
            continue
        try:
            text = insp.atok.get_text(node)
        except Exception:
            continue
        if not text or isinstance(node, ast.Constant):
            continue  # constants inside format specs carry no text of their own
        key = (type(node).__name__, text)
        idxs = by_key.get(key)
        if not idxs:
            continue  # e.g. a format spec JoinedStr, which the recorder does not number
        cands = []
        evaluated = False
        incomp = False
        for i in idxs:
            incomp = incomp or rec.info[i]["in_comp"]
            if i in rec.values:
                evaluated = True
                cands.extend(rec.values[i])
        if isinstance(v, rc.FirstExceptionInAll):
            v = False
        if not expr.representable(v):
            continue  # functions, classes, methods, modules, builtins: module and recorder hold distinct copies
        if not evaluated:
            if not incomp:
                bad.append(("recomputed_what_python_skipped", "{} {!r} re-computed as {!r} but Python did not evaluate it".format(key[0], text, v)))
            continue
        same = False
        for c in cands:
            try:
                if c is v or (type(c) is type(v) and c == v) or (repr(c) == repr(v)):
                    same = True
                    break
            except Exception:
                pass
        if not same:
            bad.append(("recomputed_value_differs", "{} {!r}: the library re-computed {!r}, Python computed {}".format(
                key[0], text, v, [repr(c) for c in cands][:4])))
    return bad


def check_batch(batch, acc, vals, level):
    import icontract

    a_repr = icontract.aRepr
    items = []
    recs = {}
    genv = {}
    exec(expr.GLOBALS_SRC, genv)
    genv.update(expr.CLOSURE)
    genv.update(expr.OWN_DEFAULTS)
    resolvable = set(expr.PARAMS) | {"G", "GL", "GW", "IMPOSSIBLE", "C", "CL", "self", "t"} | set(expr.OWN_DEFAULTS)
    for idx, (typ, e, fi, cond) in batch:
        role = role_of(idx)
        if role == "invariant" and expr.own_default_params(cond):
            role = "require"   # an invariant condition takes nothing but self
        ctext = to_self(cond) if role == "invariant" else cond
        falsy_vals = []
        for vi, val in enumerate(vals):
            env = dict(genv)
            if role == "invariant":
                holder_env = {"self": type("H", (), {})()}
                holder_env["self"].__dict__.update(val)
                env.update(holder_env)
            else:
                env.update(val)
            r = expr.record(ctext, env)
            try:
                falsy = r.error is None and not r.result
            except Exception:
                falsy = False   # the condition's value has no truth value: Python itself cannot judge it
            if falsy:
                r.env = env
                r.resolvable = resolvable
                falsy_vals.append((vi, r))
        if falsy_vals:
            items.append((idx, role, ctext))
            recs[idx] = (typ, e, fi, ctext, role, falsy_vals)
    if not items:
        return
    src = render_batch(items)
    ns = core.fresh_ctx_run(core.load_source, src, "c06")
    try:
        for idx, role, ctext in items:
            typ, e, fi, _, _, falsy_vals = recs[idx]
            for vi, rec in falsy_vals:
                val = vals[vi]
                feats = {"type": typ, "frame": fi, "role": role, "valuation": vi, "top": type(ast.parse(e, mode="eval").body).__name__,
                         "none_bound": any(val.get(p) is None for p in expr.free_params(e))}
                exc = None
                try:
                    if role == "invariant":
                        core.fresh_ctx_run(lambda: ns["FS"][idx](**val))
                        call_args = None
                    else:
                        core.fresh_ctx_run(lambda: ns["FS"][idx](**val))
                except BaseException as ex:  # noqa
                    exc = ex
                acc.case((ctext, vi, role), True, len(rec.values), type(exc).__name__ if exc else "ret")
                if type(exc) is not icontract.ViolationError:
                    # the wrong exception class is C07's business; here we can only note that there is no message to judge
                    acc.bump("no_message_to_judge")
                    if exc is None:
                        acc.violation(core.Violation(PROP, "falsy_condition_not_reported", feats, "condition {!r} is falsy for valuation {} but no error".format(ctext, vi),
                                                     spec={"cond": ctext, "valuation": vi, "role": role}))
                    continue
                if role == "invariant":
                    # resolved kwargs of an invariant: only self (the instance is gone with the failed construction; its repr is fixed)
                    bad = judge(ctext, role, rec, str(exc), {"self": ns["Holder"]()}, a_repr)
                else:
                    call_args = dict(val)
                    call_args.update(expr.SHADOWING_ARGS)
                    if role == "ensure":
                        call_args["result"] = 1
                    bad = judge(ctext, role, rec, str(exc), call_args, a_repr)
                    if not bad:
                        chk = icontract._checkers.find_checker(ns["FS"][idx])
                        contracts = ([c for g in chk.__preconditions__ for c in g] + list(chk.__postconditions__)) if chk is not None else []
                        if len(contracts) == 1:
                            resolved = dict(call_args)
                            resolved["_ARGS"] = ()
                            resolved["_KWARGS"] = dict(val)
                            bad = node_level(contracts[0].condition, rec, resolved)
                            acc.bump("node_level_comparisons")
                for b in bad[:1]:
                    sym, detail = b[0], b[1]
                    feats = dict(feats, where=b[2] if len(b) > 2 else None)
                    script = "import icontract\n" + expr.GLOBALS_SRC + "# condition: {}\n# valuation #{}: {!r}\n# message:\n# {}\n".format(
                        ctext, vi, val, str(exc).replace("\n", "\n# "))
                    acc.violation(core.Violation(PROP, sym, feats, "condition {!r}, valuation {}: {}\n message: {}".format(ctext, vi, detail, str(exc)[:500]),
                                                 spec={"cond": ctext, "valuation": vi, "role": role}, script=script))
        acc.sample({"condition": items[0][2], "role": items[0][1]}, cap=3)
    finally:
        core.unload_source(ns)


# ---------------------------------------------------------------------------------------------
# private (name-mangled) names: the compiler renames ``__name`` written inside a class body to ``_Class__name`` - and only there

PRIVATE_SRC = '''\
import icontract
__limit = 1
_C__limit = 100
__free = 3
class Q:
    def __init__(self):
        self.__dict__['__v'] = 1
        self._k__v = 100
    def __repr__(self):
        return "Q()"
@icontract.require(lambda q: q._k__v < 0 or q.__v < 0)
def module_level(q):
    pass
@icontract.require(lambda q: q.__v < 0 or q._k__v < 0)
def module_level_other_order(q):
    pass
@icontract.require(lambda x: x < __free)
def module_level_global(x):
    pass
class C:
    def __init__(self):
        self.__v = 5
        self._Other__v = 50
    def __repr__(self):
        return "C()"
    @icontract.require(lambda self, x: x < __limit)
    def uses_private_global(self, x):
        pass
    @icontract.require(lambda self, x: (__t := x) > 5 and __t < 0)
    def walrus_private_target(self, x):
        pass
    @icontract.require(lambda self: self._Other__v < 0 or self.__v < 0)
    def foreign_mangled_first(self):
        pass
class Aouter:
    class Binner:
        def __init__(self):
            self.__x = 3
            self._Aouter__x = 300
        def __repr__(self):
            return "Binner()"
        @icontract.require(lambda self: self._Aouter__x < 0 or self.__x < 0)
        def nested(self):
            pass
class AnyCallable:
    """equal to everything (also to the built-in ``all``), gives an empty list when called"""
    def __eq__(self, other):
        return True
    def __hash__(self):
        return 0
    def __call__(self, it):
        return [v for v in it][:0]
    def __repr__(self):
        return "AnyCallable()"
@icontract.require(lambda f, xs: f(x > 0 for x in xs))
def callable_equal_to_all(f, xs):
    pass
@icontract.require(lambda x: f"{(w := x):{w}}" == "")
def spec_reads_walrus_of_value(x):
    pass
@icontract.require(lambda x, s: f"{x!r:>{s}}" == "" or f"{x!s}{x!a}" == "")
def conversions(x, s):
    pass
_K__only_mangled = 3
class K:
    def __repr__(self):
        return "K()"
    @icontract.require(lambda self, x: x < __only_mangled)
    def private_global_only_mangled(self, x):
        pass
    @icontract.require(lambda self, __x: __x > 0)
    def private_parameter(self, __x):
        pass
    limit = 3
    @icontract.require(lambda self, xs: (__t := self.limit) and all(x < __t for x in xs))
    def private_walrus_read_in_comprehension(self, xs):
        pass
@icontract.require(lambda xs: [(m := x) for x in xs] and [(m := m + y) for y in xs] == [])
def read_and_rebind_walrus_target(xs):
    pass
# closures with a cell that is still empty when the contract is violated (the enclosing function assigns it later); a module
# global bears the name of the closure variable which IS bound
threshold = 1000
zz_late = 2000
def make_closure(first_unbound):
    if first_unbound:
        @icontract.require(lambda x: x < threshold and x < aa_late)
        def f(x):
            pass
        threshold = 10
        out = lambda: f(50)
        return out, (lambda: None)
    else:
        @icontract.require(lambda x: x < threshold and x < zz_late)
        def g(x):
            pass
        threshold = 10
        return (lambda: g(50)), (lambda: None)
    aa_late = 5
    zz_late = 5
'''
# (callable, expected lines "text was repr" that must be in the message, texts that must NOT carry another value)
PRIVATE_CASES = [
    ("module_level", lambda ns: ns["module_level"](ns["Q"]()), {"q.__v": "1", "q._k__v": "100"}),
    ("module_level_other_order", lambda ns: ns["module_level_other_order"](ns["Q"]()), {"q.__v": "1", "q._k__v": "100"}),
    ("module_level_global", lambda ns: ns["module_level_global"](7), {"__free": "3", "x": "7"}),
    ("private_global_in_class_body", lambda ns: ns["C"]().uses_private_global(150), {"__limit": "100", "x": "150"}),
    ("walrus_private_target", lambda ns: ns["C"]().walrus_private_target(7), {"__t": "7", "x": "7"}),
    ("foreign_mangled_first", lambda ns: ns["C"]().foreign_mangled_first(), {"self.__v": "5", "self._Other__v": "50"}),
    ("nested_class", lambda ns: ns["Aouter"].Binner().nested(), {"self.__x": "3", "self._Aouter__x": "300"}),
    ("callable_equal_to_all", lambda ns: ns["callable_equal_to_all"](ns["AnyCallable"](), [1, -1]),
     {"f(x > 0 for x in xs)": "[]", "xs": "[1, -1]", "f": "AnyCallable()"}),
    ("spec_reads_walrus_of_value", lambda ns: ns["spec_reads_walrus_of_value"](3), {"x": "3", 'f"{(w := x):{w}}"': "'  3'"}),
    ("private_global_only_mangled", lambda ns: ns["K"]().private_global_only_mangled(5), {"__only_mangled": "3", "x": "5", "self": "K()"}),
    ("private_parameter", lambda ns: ns["K"]().private_parameter(-1), {"__x": "-1", "self": "K()"}),
    ("private_walrus_read_in_comprehension", lambda ns: ns["K"]().private_walrus_read_in_comprehension([1, 5]), {"__t": "3", "xs": "[1, 5]", "self.limit": "3"}),
    ("read_and_rebind_walrus_target", lambda ns: ns["read_and_rebind_walrus_target"]([1, 2]), {"xs": "[1, 2]", "[(m := x) for x in xs]": "[1, 2]"}),
    ("closure_with_empty_cell_before", lambda ns: ns["make_closure"](True)[0](), {"threshold": "10", "x": "50"}),
    ("closure_with_empty_cell_after", lambda ns: ns["make_closure"](False)[0](), {"threshold": "10", "x": "50"}),
    ("conversions", lambda ns: ns["conversions"]("é", 5), {"x": "'é'", "s": "5", 'f"{x!r:>{s}}"': "\"  'é'\"", 'f"{x!s}{x!a}"': "\"é'\\\\xe9'\""}),
]


def check_private(acc):
    import icontract

    ns = core.load_source(PRIVATE_SRC, "c06p")
    try:
        for name, thunk, want in PRIVATE_CASES:
            def go():
                try:
                    return ("ret", thunk(ns))
                except BaseException as e:  # noqa
                    return ("exc", e)
            out = core.fresh_ctx_run(go)
            acc.case(("private", name), True, len(want), out[0] if out[0] != "exc" else type(out[1]).__name__)
            bad = None
            if out[0] != "exc" or type(out[1]) is not icontract.ViolationError:
                bad = ("falsy_condition_not_reported" if out[0] != "exc" else "no_message_to_judge", "expected ViolationError got {!r}".format(out[1]))
            else:
                lines = {}
                for ln in str(out[1]).splitlines():
                    if " was " in ln:
                        t, v = ln.rsplit(" was ", 1)
                        lines[t.split(": ")[-1].strip()] = v.strip()
                for t in lines:
                    if t.startswith("_K__") or t.startswith("_C__"):
                        bad = ("wrong_value_shown", "{!r} is listed, which is not a text of the condition: {!r}".format(t, str(out[1])))
                for t, v in want.items():
                    if t not in lines:
                        bad = ("evaluated_subexpression_not_listed", "{!r} (= {}) is not listed in {!r}".format(t, v, str(out[1])))
                    elif lines[t] != v:
                        bad = ("wrong_value_shown", "{!r} shown as {} but Python computed {}: {!r}".format(t, lines[t], v, str(out[1])))
                        break
            if bad:
                acc.violation(core.Violation(PROP, bad[0], {"part": "private_names", "case": name, "where": None},
                                             "private name ({}): {}".format(name, bad[1]), spec={"part": "private"}, script=PRIVATE_SRC))
        acc.sample({"part": "private_names", "cases": [c[0] for c in PRIVATE_CASES]}, cap=1)
    finally:
        core.unload_source(ns)


def work(args):
    import warnings
    warnings.simplefilter("ignore", SyntaxWarning)
    acc = core.Acc()
    vals = expr.valuations()
    xvals = vals + expr.exotic_valuations()
    for batch, level in args:
        if level == "private":
            check_private(acc)
            continue
        check_batch(batch, acc, xvals if level == "exotic" else vals, level)
    return acc.result()


def run(tier, t0):
    level = 2 if tier == "quick" else 3
    conds = conditions(level)
    indexed = list(enumerate(conds))
    # the depth<=2 conditions run on 9 valuations (4..8: objects with unusual __eq__ / truth value), the deeper ones on 4
    small = {c[3] for c in conditions(2)} if level > 2 else None
    ex = [it for it in indexed if small is None or it[1][3] in small]
    rest = [it for it in indexed if small is not None and it[1][3] not in small]
    batches = [(ex[i:i + BATCH], "exotic") for i in range(0, len(ex), BATCH)] + [(rest[i:i + BATCH], level) for i in range(0, len(rest), BATCH)]
    batches.append((None, "private"))
    tot = core.merge(core.pmap(work, core.rotate(batches)))
    return core.finish(
        PROP, tier, tot, t0,
        rule="typed expression grammar ({} expressions: depth<=1 complete, all parent/child pairs{}) x 6 falsifying frames (depth<=1 also in 3 frames that use a defaulted parameter of the condition itself) x 4 "
             "valuations (depth<=2 conditions: 9 valuations, five of them binding x, y, the elements of xs and o.v to objects with an unusual "
             "__eq__ or truth value: equal-to-everything, element-wise ==, never-equal, nan, an int sub-class whose comparisons answer 0 or 1 instead of a bool); kept: every (condition, valuation) CPython evaluates falsy without raising; roles rotate over "
             "require/ensure/invariant. The real message is parsed into '<text> was <repr>' lines and all()-blocks; soundness: "
             "each text is a sub-expression Python evaluated (or a call argument) and the repr equals a_repr.repr of a value it "
             "took; the all()-example is the first falsifying assignment; completeness: every representable argument and every "
             "Name/Attribute/Call/Subscript/comprehension evaluated outside a comprehension scope is listed; additionally every node in "
             "icontract._recompute.Visitor.recomputed_values (shown or not) is compared with the recorder: same value, and nothing "
             "re-computed that Python skipped. Plus programs with private (name-mangled) names inside and outside class bodies "
             "with exact expected lines. "
             "non-trivial = every falsy (condition, valuation)".format(
                 len(set(c[1] for c in conds)), ", full products of <=2-slot productions, depth-3 chains" if level >= 3 else ""),
        assumptions=["inline lambdas (documented as unsupported), await and yield are outside the alphabet",
                     "values: small ints, lists, strs, dicts, one object, four objects with unusual __eq__; raising __repr__ is C11's subject"],
        bounds={"conditions": len(conds), "level": level},
    )


def replay(path):
    data = json.load(open(path))["spec"]
    acc = core.Acc()
    if data.get("part") == "private":
        check_private(acc)
        for v in acc.violations[:5]:
            print("VIOLATION property={} replay={}".format(PROP, path))
            print(" ", v.symptom, v.detail[:600])
        return 1 if acc.violations else 0
    vals = expr.valuations() + expr.exotic_valuations()
    idx = {"require": 0, "ensure": 7, "invariant": 9}[data["role"]]
    cond = data["cond"]
    check_batch([(idx, ("?", cond, 0, cond))], acc, vals, 3)
    for v in acc.violations[:5]:
        print("VIOLATION property={} replay={}".format(PROP, path))
        print(" ", v.symptom, v.detail[:600])
    return 1 if acc.violations else 0
