"""C20 - violation messages are deterministic and bounded.

Sub-processes with PYTHONHASHSEED in a fixed list run the same scenario set (all permutations of keyword arguments,
repetitions with other violations in between, sets/dicts of strings, sets with programmed hashes in every iteration
order, values around the a_repr limits with the default and two user-supplied a_repr, failing all() witnesses,
unrepresentable values, _ARGS/_KWARGS); the messages must be byte-identical across seeds, permutations and
repetitions, every rendering must equal the contract's own a_repr.repr(value), value lines must be sorted."""
import concurrent.futures
import json
import os
import subprocess

from .. import core

PROP = "C20"
SEEDS = ["0", "1", "2", "3", "17", "4242"]


def run_child(seed):
    env = dict(os.environ)
    env["VERIF_C20_VERIF"] = core.VERIF_DIR
    env["VERIF_REPO"] = core.REPO
    env["PYTHONHASHSEED"] = seed
    env["PYTHONDONTWRITEBYTECODE"] = "1"
    p = subprocess.run([core.PY, os.path.join(core.VERIF_DIR, "mc", "c20_child.py")], env=env, capture_output=True, text=True, timeout=900)
    if p.returncode != 0:
        return {"crash": p.stderr[-2000:]}
    return json.loads(p.stdout)


def run(tier, t0):
    acc = core.Acc()
    seeds = SEEDS if tier == "quick" else SEEDS + ["5", "99", "31337", "123456789"]
    with concurrent.futures.ThreadPoolExecutor(max_workers=len(seeds)) as ex:
        results = list(ex.map(run_child, seeds))
    ref = None
    for seed, res in zip(seeds, results):
        if "crash" in res:
            acc.case(("child", seed), True, 1, "crash")
            acc.violation(core.Violation(PROP, "child_crashed", {"seed": seed}, res["crash"], spec={"seed": seed}))
            continue
        for lv in res["local"]:
            acc.violation(core.Violation(PROP, lv["symptom"], {"seed": seed, "scenario": lv.get("scenario"), "size_case": lv.get("size_case")},
                                         lv["detail"], spec={"seed": seed, "local": lv}))
        msgs = res["messages"]
        for label, msg in msgs.items():
            acc.case((seed, label), True, 1 if isinstance(msg, str) else len(msg), "msg")
            if isinstance(msg, str) and not label.startswith("g") and (msg.startswith("OTHER:") or msg == "NO-VIOLATION"):
                acc.violation(core.Violation(PROP, "no_violation_message", {"seed": seed, "scenario": label}, msg[:300], spec={"seed": seed, "label": label}))
        if ref is None:
            ref = (seed, msgs)
        else:
            for label in sorted(set(ref[1]) | set(msgs)):
                if ref[1].get(label) != msgs.get(label):
                    acc.violation(core.Violation(
                        PROP, "message_depends_on_hash_seed", {"scenario": label.split(":")[0], "seed": seed},
                        "scenario {}: PYTHONHASHSEED={} gives {!r} but PYTHONHASHSEED={} gives {!r}".format(
                            label, ref[0], str(ref[1].get(label))[:300], seed, str(msgs.get(label))[:300]),
                        spec={"label": label, "seeds": [ref[0], seed]}))
                    break
    if ref:
        acc.sample({"seed": ref[0], "scenario": "perm", "message": ref[1].get("perm")})
        acc.sample({"scenario": "s_all_r10", "message": ref[1].get("s_all_r10")})
    tot = core.merge([acc.result()])
    return core.finish(
        PROP, tier, tot, t0,
        rule="{} sub-processes (PYTHONHASHSEED in {}), each: all 24 permutations of 4 keyword arguments x 3 repetitions with other "
             "violations in between; sets/dicts of strings built in different insertion orders; 3-element sets with programmed "
             "hashes in all 6 iteration orders; classes/functions/methods/modules/builtins as arguments of lambda and "
             "named-function conditions; _ARGS/_KWARGS named and not named; 25 values around the limits (strings of 255/256/257/"
             "5000 characters, lists/tuples/sets/dicts/frozensets of 49/50/51/500 items, nesting depth 7, long dict, huge int) x "
             "default a_repr, two user a_repr (limits 10 and 1), pre/post/invariant; failing all() witnesses (long string, set) "
             "with default and user a_repr; plus the depth-1 part of the C06 expression grammar (all frames, 4 valuations with "
             "dict/set-of-strings values). Oracle: identical messages across seeds/permutations/repetitions, every value line "
             "equals '<text> was ' + contract a_repr.repr(value), lines sorted by expression text; non-trivial = every message".format(
                 len(seeds), seeds),
        assumptions=["the hash seeds are a fixed list (exhaustive refers to that list); elements of sets are orderable (reprlib "
                     "sorts them; unorderable elements fall back to iteration order by design of reprlib)"],
        bounds={"seeds": seeds},
    )


def replay(path):
    import time
    return run("quick", time.time())
