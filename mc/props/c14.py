"""C14 - satisfied contracts are transparent.

Oracle: the *bare twin* - the same source rendered without the icontract decorators (foreign decorators stay).
(a) callables: kinds x signatures x stacks of 1-3 contract decorators with a foreign functools.wraps decorator in every
position, all contracts satisfied; (b) classes: styles x invariants x subclass variants, operation scripts."""
import inspect
import copy
import itertools
import json

from .. import core

PROP = "C14"

HDR = '''\
import abc
import dataclasses
import functools
import inspect
import operator
import typing
import icontract
LOG = []
FCOUNT = {"n": 0}
def tagged(fn):
    fn.tag = "T"
    return fn
class InstanceOnly:
    """a descriptor which is available only on instances"""
    def __get__(self, obj, owner=None):
        if obj is None:
            raise AttributeError("available only on instances")
        return 5
class myprop(property):
    """a sub-class of property with behaviour of its own"""
    def tag(self):
        return "tagged"
    def __set_name__(self, owner, name):
        self.bound_as = (owner.__name__, name)
class Boom(Exception): pass
BOOM = Boom("from body")
RES = {"mode": "ret"}
class Tick:
    def __await__(self):
        yield None
def fw(fn):
    if inspect.iscoroutinefunction(fn):
        @functools.wraps(fn)
        async def w(*a, **k):
            FCOUNT["n"] += 1
            return await fn(*a, **k)
    else:
        @functools.wraps(fn)
        def w(*a, **k):
            FCOUNT["n"] += 1
            return fn(*a, **k)
    return w
def gw(fn):
    # a foreign decorator that sets __wrapped__ but does NOT merge the __dict__ of the wrapped function
    if inspect.iscoroutinefunction(fn):
        @functools.wraps(fn, updated=())
        async def w(*a, **k):
            FCOUNT["n"] += 1
            return await fn(*a, **k)
    else:
        @functools.wraps(fn, updated=())
        def w(*a, **k):
            FCOUNT["n"] += 1
            return fn(*a, **k)
    return w
def hw(fn):
    # a foreign decorator that changes the colour: a sync facade over a coroutine function, an async facade over a plain one
    if inspect.iscoroutinefunction(fn):
        @functools.wraps(fn)
        def w(*a, **k):
            FCOUNT["n"] += 1
            return RUN(fn(*a, **k))
    else:
        @functools.wraps(fn)
        async def w(*a, **k):
            FCOUNT["n"] += 1
            return fn(*a, **k)
    return w
def _out(received):
    LOG.append(("body", received))
    if RES["mode"] == "raise":
        raise BOOM
    return RESULT
RESULT = object()
def RUN(c):
    try:
        while True: c.send(None)
    except StopIteration as s:
        return s.value
'''

SIGS = {
    "xy": ("x, y=None", "{'x': x, 'y': y}", [((1, 2), {}), ((1,), {"y": 2}), ((), {"x": 1, "y": 2}), ((1,), {})]),
    "var": ("x, *args, k=None, **kw", "{'x': x, 'args': args, 'k': k, 'kw': tuple(sorted(kw.items(), key=lambda kv: kv[0]))}",
            [((1, 2, 3), {"k": 4, "z": 5}), ((1,), {}), ((), {"x": 1, "z": 2})]),
    "posonly": ("x, /, y", "{'x': x, 'y': y}", [((1, 2), {}), ((1,), {"y": 2})]),
    "none": ("", "{}", [((), {})]),
}
KINDS = ["func", "method", "static", "classm", "afunc", "amethod", "method_this", "method_star", "abstract_above", "abstract_below",
         "method_nested", "amethod_nested"]  # *_nested: a public method g calling the contracted public method f on the same instance
CONTRACTS = {
    "R": "@icontract.require(lambda: True)",
    "E": "@icontract.ensure(lambda result: True)",
    "S": "@icontract.snapshot(lambda: 1, name='s{i}')",
}


def stacks(tier):
    """decorator stacks top->bottom as strings over R/E/S/F (F = foreign); S only above an E."""
    out = set()
    base = ["R", "E", "RE", "ER", "RR", "SE", "RSE", "SER", "ERR", "RER"]
    if tier == "thorough":
        base += ["EE", "SSE", "RRR", "ESE", "RERE", "SERE"]
    for b in base:
        out.add(b)
        for pos in range(len(b) + 1):
            out.add(b[:pos] + "F" + b[pos:])
            if len(b) <= 2 or tier == "thorough":
                out.add(b[:pos] + "G" + b[pos:])   # G: foreign functools.wraps(fn, updated=()) decorator
                out.add(b[:pos] + "H" + b[pos:])   # H: foreign decorator that turns async into sync and vice versa
        if tier == "thorough" and len(b) >= 2:
            for p1, p2 in itertools.combinations(range(len(b) + 1), 2):
                s = list(b)
                s.insert(p2, "F")
                s.insert(p1, "F")
                out.add("".join(s))
    return sorted(out)


def render_callable(kind, sig, stack, contracts):
    params, recv, _ = SIGS[sig]
    lines = []
    i = 0
    for ch in stack:
        if ch == "F":
            lines.append("@fw")
        elif ch == "G":
            lines.append("@gw")
        elif ch == "H":
            lines.append("@hw")
        elif contracts:
            lines.append(CONTRACTS[ch].format(i=i))
            i += 1
    is_async = kind in ("afunc", "amethod", "amethod_nested")
    adef = "async def" if is_async else "def"
    doc = '    """The doc of f."""\n'
    aw = "    await Tick()\n" if is_async else ""
    if kind in ("func", "afunc"):
        return "".join(l + "\n" for l in lines) + "{} f({}) -> 'int':\n{}{}    return _out({})\n".format(adef, params, doc, aw, recv)
    first = {"method": "self", "amethod": "self", "method_nested": "self", "amethod_nested": "self", "method_this": "this", "method_star": None, "classm": "cls", "static": None,
             "abstract_above": "self", "abstract_below": "self"}[kind]
    if kind == "method_star":
        ps = "*args"
        recv2 = "{'args': args[1:]}"
    else:
        ps = ", ".join([p for p in [first, params] if p])
        recv2 = recv
    pre = []
    if kind == "static":
        pre = ["@staticmethod"]
    elif kind == "classm":
        pre = ["@classmethod"]
    elif kind == "abstract_above":
        pre = ["@abc.abstractmethod"]
    post = ["@abc.abstractmethod"] if kind == "abstract_below" else []
    body = "".join("    " + l + "\n" for l in pre + lines + post)
    body += "    {} f({}) -> 'int':\n        \"\"\"The doc of f.\"\"\"\n{}        return _out({})\n".format(
        adef, ps, "        await Tick()\n" if is_async else "", recv2)
    # invariants make every public method pass through the invariant wrapper as well
    base = "(abc.ABC)" if kind.startswith("abstract") else ""
    inv = "@icontract.invariant(lambda self: True)\n" if (contracts and kind in ("method", "amethod", "method_this", "method_star", "method_nested", "amethod_nested")) else ""
    if kind == "method_nested":
        body += "    def g(self, *a, **k):\n        return self.f(*a, **k)\n"
    elif kind == "amethod_nested":
        body += "    async def g(self, *a, **k):\n        return await self.f(*a, **k)\n"
    src = inv + "class K{}:\n".format(base) + body
    if kind.startswith("abstract"):
        src += "class Impl(K):\n    def f(self, {}):\n        return _out({})\n".format(params, recv)
    return src


def observe_callable(ns, kind, sig):
    """Everything the statement lists, in a comparable form."""
    obs = {}
    is_async = kind in ("afunc", "amethod", "amethod_nested")
    if kind in ("func", "afunc"):
        f = ns["f"]
        target = f
        call = lambda a, k: f(*a, **k)
    else:
        K = ns["K"]
        f = inspect.getattr_static(K, "f")
        target = getattr(K, "f")
        if kind.startswith("abstract"):
            obs["abstractmethods"] = sorted(K.__abstractmethods__)
            obs["isabstract"] = getattr(target, "__isabstractmethod__", False)
            try:
                K()
                obs["abstract_instantiable"] = True
            except TypeError:
                obs["abstract_instantiable"] = False
            inst = ns["Impl"]()
        else:
            inst = K()
        call = (lambda a, k: inst.g(*a, **k)) if kind.endswith("_nested") else (lambda a, k: inst.f(*a, **k))
    fn = target.__func__ if inspect.ismethod(target) else target
    obs["name"] = fn.__name__
    obs["qualname"] = fn.__qualname__
    obs["doc"] = fn.__doc__
    obs["module"] = fn.__module__ == ns["__name__"]
    obs["annotations"] = dict(getattr(fn, "__annotations__", {}))
    obs["signature"] = str(inspect.signature(target))
    # the return annotation is written as a string: resolving it on request must work through the checker as well
    obs["signature_eval_str"] = str(inspect.signature(target, eval_str=True))
    obs["iscoroutinefunction"] = inspect.iscoroutinefunction(target)
    obs["static_type"] = type(f).__name__ if kind in ("static", "classm") else "function"
    # the original function is reachable through __wrapped__
    orig = inspect.unwrap(fn)
    obs["unwrapped_is_plain_function"] = inspect.isfunction(orig) and orig.__code__.co_filename == ns["__file__"] and orig.__code__.co_name == "f"
    calls = []
    for mode in ("ret", "raise"):
        for a, k in SIGS[sig][2] if kind != "method_star" else [((1, 2), {}), ((), {})]:
            if kind == "method_star" and k:
                continue
            objs_a = tuple(("A%d" % i, object()) for i in range(len(a)))
            objs_k = {name: ("K" + name, object()) for name in k}
            ids = {id(o): tag for tag, o in list(objs_a) + list(objs_k.values())}
            ns["RES"]["mode"] = mode
            del ns["LOG"][:]
            ns["FCOUNT"]["n"] = 0
            try:
                r = call(tuple(o for _, o in objs_a), {n: o for n, (_, o) in objs_k.items()})
                if inspect.iscoroutine(r):
                    r = ns["RUN"](r)
                out = ("ret", r is ns["RESULT"])
            except BaseException as e:
                out = ("exc", e is ns["BOOM"], type(e).__name__)

            def canon(v):
                if isinstance(v, tuple):
                    return tuple(canon(x) for x in v)
                if isinstance(v, dict):
                    return tuple(sorted((k2, canon(x)) for k2, x in v.items()))
                return ids.get(id(v), "default" if v is None else ("str:" + v if isinstance(v, str) else "other"))
            bodies = [canon(ev[1]) for ev in ns["LOG"] if ev[0] == "body"]
            calls.append((mode, len(a), tuple(sorted(k)), out, tuple(bodies), ns["FCOUNT"]["n"]))
    obs["calls"] = calls
    return obs, fn


def count_checkers(fn):
    """Number of icontract checker wrappers in the __wrapped__ chain (must be exactly one)."""
    n = 0
    seen = set()
    while fn is not None and id(fn) not in seen:
        seen.add(id(fn))
        code = getattr(fn, "__code__", None)
        if code is not None and code.co_filename.endswith("_checkers.py") and code.co_name == "wrapper" \
                and "__preconditions__" in vars(fn) and not getattr(fn, "__is_invariant_check__", False):
            n += 1
        fn = getattr(fn, "__wrapped__", None)
    return n


def check_callable(item, acc):
    kind, sig, stack = item["kind"], item["sig"], item["stack"]
    feats = {"family": "callable", "kind": kind, "sig": sig, "stack": stack, "foreign_pos": max(stack.find("F"), stack.find("G"), stack.find("H")), "foreign_changes_colour": "H" in stack, "foreign_merges_dict": "G" not in stack}
    key = json.dumps(item, sort_keys=True)
    src_c = HDR + render_callable(kind, sig, stack, True)
    src_b = HDR + render_callable(kind, sig, stack, False)
    nsb = core.fresh_ctx_run(core.load_source, src_b, "c14b")
    try:
        try:
            nsc = core.fresh_ctx_run(core.load_source, src_c, "c14c")
        except Exception as e:
            acc.case(("def", key), True, 1, "def_error")
            acc.violation(core.Violation(PROP, "definition_failed", feats, repr(e), spec={"item": item}, script=src_c))
            return
        try:
            ob, _ = core.fresh_ctx_run(observe_callable, nsb, kind, sig)
            try:
                oc, fn = core.fresh_ctx_run(observe_callable, nsc, kind, sig)
            except Exception as e:
                acc.case((key,), True, 1, "crash")
                acc.violation(core.Violation(PROP, "contracted_use_failed", feats, "the bare twin works, the contracted one raised {!r}".format(e),
                                             spec={"item": item}, script=src_c))
                return
            acc.case((key,), True, sum(len(c[4]) + 1 for c in oc["calls"]), tuple(c[3] for c in oc["calls"]))
            for k in ob:
                if ob[k] != oc[k]:
                    sym = "calls_differ" if k == "calls" else "metadata_" + k
                    detail = "{}: bare twin {!r} vs contracted {!r}".format(k, ob[k], oc[k])
                    if k == "calls":
                        for cb, cc in zip(ob[k], oc[k]):
                            if cb != cc:
                                detail = "call (mode, npos, kws, outcome, body-received, foreign-runs): bare {} vs contracted {}".format(cb, cc)
                                if cb[5] != cc[5]:
                                    sym = "foreign_decorator_runs"
                                elif cb[4] != cc[4]:
                                    sym = "body_received_other_objects"
                                elif cb[3] != cc[3]:
                                    sym = "result_or_exception_not_identical"
                                break
                    acc.violation(core.Violation(PROP, sym, feats, detail, spec={"item": item}, script=src_c))
                    break
            n = count_checkers(fn)
            if n != 1:
                acc.violation(core.Violation(PROP, "not_a_single_checker", feats, "{} checker wrappers in the __wrapped__ chain".format(n),
                                             spec={"item": item}, script=src_c))
            acc.sample({"callable": item}, cap=2)
        finally:
            core.unload_source(nsc)
    finally:
        core.unload_source(nsb)


# ---------------------------------------------------------------------------------------------
# classes

CLASS_STYLES = ["plain", "slots", "dataclass", "namedtuple", "no_init", "user_new", "init_args", "factory_new", "factory_new_init", "setstate", "setstate_assign", "abstract_members", "getattr_fallback", "descriptors"]
CHILDREN = [None, "plain_noinit", "plain_init_args", "dbc_noinit", "dbc_init_args", "dbc_new", "plain_new",
            "plain_grandchild", "dbc_grandchild", "plain_mixin_init", "plain_dict_base", "plain_exception_base",
            "plain_prop_over_attr", "dbc_prop_over_attr", "plain_method_over_descriptor", "dbc_method_over_descriptor"]  # constructor inherited by the class that is instantiated


def render_class(style, inv, child, dbc, contracts):
    w = []
    deco = ""
    if contracts:
        # (the class with a __getattr__ fall-back gets an invariant which is plainly false, not an AttributeError, on a blank instance)
        deco = "".join("@icontract.invariant(lambda self: {}{{}})\n".format(
            "'v' in vars(self)" if style == "getattr_fallback" else "self.v is not None").format(
            {"C": "", "S": ", check_on=icontract.InvariantCheckEvent.SETATTR", "A": ", check_on=icontract.InvariantCheckEvent.ALL"}[c]) for c in inv)
    base = ("icontract.DBC" if contracts else "abc.ABC") if dbc else ""
    bs = "({})".format(base) if base else ""
    members = ("    def _get_q(self):\n        \"\"\"getter doc\"\"\"\n        return 8\n    def _set_w(self, value):\n        pass\n"
               "    q = property(_get_q, None, None, 'the user doc of q')\n    w2 = property(fset=_set_w, doc='write-only doc')\n"
               "    sp = myprop(_get_q, doc='doc of the property sub-class')\n"
               # accessors which are callables of other kinds than functions (no __name__, no signature)
               "    ag = property(operator.attrgetter('v'))\n    pz = property(functools.partial(_get_q))\n"
               + ("    q2 = property(icontract.ensure(lambda result: True)(_get_q), doc='explicit q2 doc')\n" if contracts and dbc else
                  "    q2 = property(_get_q, doc='explicit q2 doc')\n") +
               "    def swap(this, self):\n        return ('swap', self)\n"
               "    def util(x):\n        return ('util', x)\n"
               "    def util0():\n        return 'util0'\n"
               "    async def autil(x):\n        await Tick()\n        return ('autil', x)\n"
               # a method which carries an attribute set by a foreign decorator and (in the contracted twin) a contract of its own
               + ("    @icontract.require(lambda self: True)\n" if contracts else "") + "    @tagged\n    def tg(self):\n        return 'tg'\n"
               "    def pub(self, x):\n        return ('pub', x)\n    @property\n    def p(self):\n        \"\"\"doc of p\"\"\"\n        return 7\n"
               "    @staticmethod\n    def sm(x):\n        return ('sm', x)\n    @classmethod\n    def cm(cls, x):\n        return (cls.__name__, x)\n")
    if style == "namedtuple":
        w.append(deco + "class Root(typing.NamedTuple):\n    v: int = 1\n" + members)
    elif style == "dataclass":
        w.append(deco + "@dataclasses.dataclass\nclass Root{}:\n    v: int = 1\n".format(bs) + members)
    else:
        w.append(deco + "class Root{}:\n".format(bs))
        if style == "slots":
            w.append("    __slots__ = ('v', 'w')\n    def __init__(self):\n        self.v = 1\n")
        elif style == "plain":
            w.append("    def __init__(self):\n        self.v = 1\n")
        elif style == "init_args":
            w.append("    def __init__(self, v=1, *, w=2):\n        self.v = v\n        self.w = w\n")
        elif style == "no_init":
            w.append("    v = 1\n")
        elif style == "user_new":
            w.append("    def __new__(cls, *a, **k):\n        o = super().__new__(cls)\n        o.made = True\n        return o\n"
                     "    def __init__(self):\n        self.v = 1\n")
        elif style == "abstract_members":
            # abstract public members of a class with invariants stay abstract (the flag lives in the function's __dict__)
            if not dbc:
                w[-1] = deco + "class Root(abc.ABC):\n"
            w.append("    v = 1\n    @abc.abstractmethod\n    def am(self):\n        return 0\n    @property\n    @abc.abstractmethod\n    def ap(self):\n        return 0\n")
            # ... and an abstract method which (in the contracted twin) carries a contract as well
            w.append(("    @icontract.require(lambda self: True)\n" if contracts else "") + "    @abc.abstractmethod\n    def amc(self):\n        return 0\n")
        elif style == "descriptors":
            # members which are descriptors of other kinds than function / property / staticmethod / classmethod
            w.append("    def __init__(self):\n        self.v = 1\n"
                     "    @functools.singledispatchmethod\n    def sd(self, a):\n        return 'object'\n"
                     "    @sd.register\n    def _(self, a: int):\n        return 'int'\n"
                     "    def _add(self, a, b):\n        return a + b\n    pm = functools.partialmethod(_add, 5)\n"
                     "    d = InstanceOnly()\n")
        elif style == "getattr_fallback":
            # copy and pickle probe a blank instance for __setstate__ & co., which lands in the __getattr__ of the class
            w.append("    def __init__(self):\n        self.v = 1\n    def __getattr__(self, name):\n        raise AttributeError(name)\n")
        elif style == "setstate":
            # state restored by __setstate__ on a blank instance (copy, pickle): __setstate__ acts as a constructor
            w.append("    def __init__(self):\n        self.v = 1\n    def __getstate__(self):\n        return {'v': self.v}\n"
                     "    def __setstate__(self, state):\n        self.__dict__.update(state)\n")
        elif style == "setstate_assign":
            # ... a __setstate__ which ASSIGNS the attributes one by one (each assignment is a SETATTR event on a half-restored object)
            w.append("    def __init__(self):\n        self.u = 0\n        self.v = 1\n    def __getstate__(self):\n        return {'u': self.u, 'v': self.v}\n"
                     "    def __setstate__(self, state):\n        self.u = state['u']\n        self.v = state['v']\n")
        elif style in ("factory_new", "factory_new_init"):
            # __new__ is a factory: for kind != 0 it returns an instance of an unrelated class
            w.insert(len(w) - 1, "class Other:\n    v = 'other'\n")
            w.append("    v = 1\n    def __new__(cls, kind=0):\n        if kind:\n            return Other()\n        return super().__new__(cls)\n")
            if style == "factory_new_init":
                w.append("    def __init__(self, kind=0):\n        self.v = 1\n")
        w.append(members)
    if child:
        cb = "Root"
        if child.startswith("dbc") and not dbc:
            return None
        w.append("class Child({}):\n".format(cb))
        if style == "slots":
            w.append("    __slots__ = ('z',)\n")

        if child.endswith("noinit"):
            w.append("    def extra(self):\n        return 'extra'\n")
        elif child.endswith("init_args"):
            if style == "namedtuple":
                return None
            w.append("    def __init__(self, z):\n        {}\n        self.z = z\n".format(
                "super().__init__()" if style not in ("no_init",) else "self.v = 1"))
        elif child.endswith("new"):
            if style == "namedtuple":
                return None
            w.append("    def __new__(cls, *a, **k):\n        o = super().__new__(cls)\n        return o\n")
        elif child.endswith("grandchild"):
            if style in ("namedtuple", "dataclass"):
                return None
            # Child defines the constructor, GrandChild (the class instantiated) inherits it
            w.append("    def __init__(self, z):\n        {}\n        self.z = z\nclass GrandChild(Child):\n    {}\n".format(
                "super().__init__()" if style not in ("no_init",) else "self.v = 1", "__slots__ = ()" if style == "slots" else "pass"))
        elif child.endswith("dict_base") or child.endswith("exception_base"):
            # the child mixes the class with a built-in base whose __new__ must be used (object.__new__ is "not safe" for it)
            if style != "no_init":
                return None
            w[-1] = "class Child(Root, {}):\n    pass\n".format("dict" if child.endswith("dict_base") else "Exception")
        elif child.endswith("prop_over_attr"):
            # the child turns a plain class attribute (and a method) of the base into properties
            if style != "no_init":
                return None
            w.append("    @property\n    def v(self):\n        return 5\n    @property\n    def swap(self):\n        return 'swap as property'\n")
        elif child.endswith("method_over_descriptor"):
            # the child overrides, with a method (and with a property), members which the base provides as descriptors available on instances only
            if style != "descriptors":
                return None
            w.append("    def d(self):\n        return 'd as method'\n")
        elif child.endswith("mixin_init"):
            if style in ("namedtuple", "dataclass", "slots"):
                return None
            # the constructor comes from a mix-in listed before Root
            w[-1] = "class Mixin:\n    def __init__(self, z):\n        self.v = 1\n        self.z = z\nclass Child(Mixin, Root):\n    pass\n"
        if not child.endswith("grandchild"):
            # the child re-defines q2 (explicit doc, a property sub-class): with a DBC base the meta-class re-creates it to add the inherited contracts
            w.append("    q2 = myprop(lambda self: 9, doc='child q2 doc')\n")
    return "".join(w)


def class_script(ns, style, child):
    """Use the classes the way the bare twin can be used; record everything observable."""
    obs = []

    def rec(label, fn):
        try:
            v = fn()
            obs.append((label, "ok", v if isinstance(v, (int, str, tuple, bool, type(None))) else type(v).__name__))
        except Exception as e:
            obs.append((label, "exc", type(e).__name__))

    Root = ns["Root"]
    rec("Root()", lambda: type(Root()).__name__)
    if style == "init_args":
        rec("Root(5, w=6)", lambda: (Root(5, w=6).v, Root(5, w=6).w))
        rec("Root(v=3)", lambda: Root(v=3).v)
    if style == "abstract_members":
        rec("abstractmethods", lambda: tuple(sorted(Root.__abstractmethods__)))
        rec("am_flag", lambda: getattr(inspect.getattr_static(Root, "am"), "__isabstractmethod__", False))
        rec("ap_flag", lambda: getattr(inspect.getattr_static(Root, "ap"), "__isabstractmethod__", False))
        Impl = type("Impl", (Root,), {"am": lambda self: 1, "ap": property(lambda self: 2), "amc": lambda self: 3})
        Partial = type("Partial", (Root,), {"am": lambda self: 1})
        Partial2 = type("Partial2", (Root,), {"am": lambda self: 1, "ap": property(lambda self: 2)})
        rec("amc_flag", lambda: getattr(inspect.getattr_static(Root, "amc"), "__isabstractmethod__", False))
        rec("Partial2()", lambda: type(Partial2()).__name__)
        rec("Partial2_abstractmethods", lambda: tuple(sorted(Partial2.__abstractmethods__)))
        rec("Impl()", lambda: (Impl().am(), Impl().ap, Impl().pub(1)))
        rec("Partial()", lambda: type(Partial()).__name__)
        rec("Partial_abstractmethods", lambda: tuple(sorted(Partial.__abstractmethods__)))
    if style in ("factory_new", "factory_new_init"):
        rec("Root(1)", lambda: (type(Root(1)).__name__, Root(1).v))
        rec("Root(kind=1)", lambda: type(Root(kind=1)).__name__)
        rec("Root(0)", lambda: (type(Root(0)).__name__, Root(0).v))
    if style in ("dataclass", "namedtuple"):
        rec("Root(4)", lambda: Root(4).v)
        rec("Root(v=4)", lambda: Root(v=4).v)
    r = None
    try:
        r = Root()
    except Exception:
        pass
    if r is not None:
        rec("pub", lambda: r.pub(3))
        rec("pub_kw", lambda: r.pub(x=3))
        rec("swap", lambda: r.swap(4))
        if style == "descriptors":
            rec("sd", lambda: (r.sd(1), r.sd("s"), type(inspect.getattr_static(Root, "sd")).__name__))
            rec("pm", lambda: (r.pm(2), type(inspect.getattr_static(Root, "pm")).__name__))
            rec("d", lambda: r.d)
        rec("unbound", lambda: Root.pub(r, 3))
        rec("unbound_kw", lambda: Root.pub(self=r, x=3))
        rec("p", lambda: r.p)
        rec("ag", lambda: (r.ag, r.pz))
        rec("sm", lambda: r.sm(1))
        rec("cm", lambda: Root.cm(1))
        rec("v", lambda: r.v)
        if style not in ("namedtuple",):
            rec("setattr", lambda: setattr(r, "v", 9))
        rec("copy", lambda: (type(copy.copy(r)) is Root, copy.copy(r).v))
        rec("deepcopy", lambda: (type(copy.deepcopy(r)) is Root, copy.deepcopy(r).v))
        if style == "getattr_fallback":
            rec("missing", lambda: r.nope)
            rec("hasattr", lambda: (hasattr(r, "nope"), hasattr(r, "v")))
        if style in ("no_init", "plain", "slots", "init_args", "descriptors"):
            # object.__new__ reached through an instance (it is a static method)
            rec("new_via_instance", lambda: type(r.__new__(Root)) is Root)
        rec("isinstance", lambda: isinstance(r, Root))
        rec("type", lambda: type(r) is Root)
        if style == "user_new":
            rec("made", lambda: r.made)
    rec("tag", lambda: (inspect.getattr_static(Root, "tg").tag, Root.tg.__name__))
    rec("util_through_class", lambda: Root.util(3))   # a plain function kept in the class body and used through the class
    rec("autil_through_class", lambda: ns["RUN"](Root.autil(3)))   # ... a coroutine function used that way
    rec("util0_through_class", lambda: Root.util0())   # ... without any argument: there is no instance in the call at all
    rec("method_without_instance", lambda: Root.pub())   # Python's own TypeError
    rec("doc_p", lambda: Root.p.__doc__)
    rec("doc_q", lambda: Root.q.__doc__)
    rec("doc_w2", lambda: Root.w2.__doc__)
    rec("sp", lambda: (type(inspect.getattr_static(Root, "sp")).__name__, inspect.getattr_static(Root, "sp").tag(), Root.sp.__doc__))
    rec("sp_set_name", lambda: getattr(inspect.getattr_static(Root, "sp"), "bound_as", None))
    rec("doc_q2", lambda: Root.q2.__doc__)
    if child and "Child" in ns:
        rec("child_q2", lambda: (type(inspect.getattr_static(ns["Child"], "q2")).__name__, ns["Child"].q2.__doc__))
    if child and child.endswith("grandchild"):
        rec("GrandChild(3)", lambda: (ns["GrandChild"](3).z, ns["GrandChild"](3).v))
        rec("GrandChild(z=3)", lambda: ns["GrandChild"](z=3).z)
        rec("gc.pub", lambda: ns["GrandChild"](3).pub(1))
    if child and (child.endswith("dict_base") or child.endswith("exception_base")):
        Child = ns["Child"]
        if child.endswith("dict_base"):
            rec("Child(a=1)", lambda: (type(Child(a=1)).__name__, dict(Child(a=1)), Child(a=1).pub(2), Child(a=1).v))
        else:
            rec("Child('x')", lambda: (type(Child("x")).__name__, Child("x").args, Child("x").pub(2)))
            def _raise():
                try:
                    raise Child("boom")
                except Exception as e:
                    return type(e).__name__, e.args
            rec("raise Child", _raise)
        return obs
    if child and child.endswith("prop_over_attr"):
        rec("Child().v", lambda: (ns["Child"]().v, ns["Child"]().swap, ns["Child"]().pub(1)))
        return obs
    if child and child.endswith("method_over_descriptor"):
        rec("Child().d()", lambda: (ns["Child"]().d(), ns["Child"]().pub(1)))
        return obs
    if child and child.endswith("mixin_init"):
        rec("Mixed(3)", lambda: (ns["Child"](3).z, ns["Child"](3).v))
        rec("mixed.pub", lambda: ns["Child"](3).pub(1))
        return obs
    if child:
        Child = ns["Child"]
        if child.endswith("init_args") or child.endswith("grandchild"):
            rec("Child(3)", lambda: (Child(3).z, Child(3).v))
            rec("Child(z=3)", lambda: Child(z=3).z)
            rec("Child()", lambda: Child())
        else:
            rec("Child()", lambda: type(Child()).__name__)
            if style == "init_args":
                rec("Child(5)", lambda: Child(5).v)
            if style in ("dataclass",):
                rec("Child(4)", lambda: Child(4).v)
        c = None
        try:
            c = Child(3) if (child.endswith("init_args") or child.endswith("grandchild")) else Child()
        except Exception:
            pass
        if c is not None:
            rec("c.pub", lambda: c.pub(2))
            rec("c.p", lambda: c.p)
            rec("c.cm", lambda: c.cm(1))
            rec("c.sm", lambda: Child.sm(1))
            rec("c.isinstance", lambda: isinstance(c, Root))
            if child.endswith("noinit"):
                rec("c.extra", lambda: c.extra())
        rec("mro", lambda: tuple(k.__name__ for k in Child.__mro__ if k.__name__ in ("Root", "Child")))
        rec("child_own_members", lambda: tuple(sorted(n for n in vars(Child) if not n.startswith("__") and not n.startswith("_abc"))))
    return obs


def check_class(item, acc):
    style, inv, child, dbc = item["style"], item["inv"], item["child"], item["dbc"]
    src_b = render_class(style, inv, child, dbc, False)
    src_c = render_class(style, inv, child, dbc, True)
    if src_b is None:
        return
    feats = {"family": "class", "style": style, "inv": inv, "child": child, "dbc": dbc, "has_setattr_inv": any(c in "SA" for c in inv),
             "child_has_init_args": bool(child and child.endswith("init_args"))}
    key = json.dumps(item, sort_keys=True)
    nsb = core.fresh_ctx_run(core.load_source, HDR + src_b, "c14cb")
    try:
        # same class object: decorate a pre-existing class by hand
        try:
            nsc = core.fresh_ctx_run(core.load_source, HDR + src_c, "c14cc")
        except Exception as e:
            acc.case(("def", key), True, 1, "def_error")
            acc.violation(core.Violation(PROP, "class_definition_failed", feats, repr(e), spec={"item": item}, script=HDR + src_c))
            return
        try:
            ob = core.fresh_ctx_run(class_script, nsb, style, child)
            oc = core.fresh_ctx_run(class_script, nsc, style, child)
            acc.case((key,), True, len(oc), tuple(o[1] for o in oc))
            for b, c in zip(ob, oc):
                if b != c:
                    acc.violation(core.Violation(
                        PROP, "class_use_differs", dict(feats, op=b[0]),
                        "operation {}: bare twin {} vs with invariants {}".format(b[0], b[1:], c[1:]), spec={"item": item}, script=HDR + src_c))
            # invariant(...)(K) is K
            import icontract

            class Plain:
                def __init__(self):
                    self.v = 1

            same = icontract.invariant(lambda self: True)(Plain) is Plain
            if not same:
                acc.violation(core.Violation(PROP, "class_object_replaced", feats, "invariant(...)(K) is not K", spec={"item": item}))
            acc.sample({"class": item}, cap=2)
        finally:
            core.unload_source(nsc)
    finally:
        core.unload_source(nsb)


def items(tier):
    out = []
    for kind in KINDS:
        for sig in (["xy", "var"] if tier == "quick" else list(SIGS)):
            if kind == "method_star" and sig != "var":
                continue
            for st in stacks(tier):
                out.append({"family": "callable", "kind": kind, "sig": sig, "stack": st})
    inv_opts = ["C", "S", "A", "CS", "SC"] if tier == "quick" else ["C", "S", "A", "CS", "SC", "AC", "CA", "CC"]
    for style in CLASS_STYLES:
        for inv in inv_opts:
            for child in CHILDREN:
                for dbc in (False, True):
                    if style == "namedtuple" and dbc:
                        continue
                    out.append({"family": "class", "style": style, "inv": inv, "child": child, "dbc": dbc})
    return out


OBJECTS_SRC = '''\
import functools
import inspect
import icontract
class Job:
    def __init__(self, n=0):
        self.n = n
    async def __call__(self):
        return self.n
class Plain:
    def __init__(self, n=0):
        self.n = n
class Adder:
    def __call__(self, n=0):
        return n + 1
def base(n, k=1):
    return n + k
TARGETS = {"class_with_async_call": Job, "plain_class": Plain, "callable_instance": Adder(), "partial": functools.partial(base, k=5), "builtin": abs}
DECOS = {"require": lambda: icontract.require(lambda: True), "ensure": lambda: icontract.ensure(lambda result: True),
         "both": lambda: (lambda f: icontract.require(lambda: True)(icontract.ensure(lambda result: True)(f)))}
'''


def check_callable_objects(acc):
    """Contracts on callables which are not functions (classes used as factories, callable instances, partials, built-ins):
    what a call gives and whether the callable counts as a coroutine function is as for the bare callable."""
    import inspect
    ns = core.load_source(OBJECTS_SRC, "c14o")
    try:
        for tname, target in ns["TARGETS"].items():
            def observe(fn):
                out = {"iscoroutinefunction": inspect.iscoroutinefunction(fn)}
                try:
                    r = fn(3)
                    out["call"] = (type(r).__name__, getattr(r, "n", r if isinstance(r, int) else None))
                    if inspect.iscoroutine(r):
                        r.close()
                except BaseException as e:  # noqa
                    out["call"] = ("exc", type(e).__name__)
                return out
            bare = observe(target)
            for dname, make in ns["DECOS"].items():
                try:
                    contracted = make()(target)
                except BaseException as e:  # noqa
                    acc.case(("objects", tname, dname), True, 1, "decoration_failed")
                    continue  # (a callable which can not be decorated is not made less transparent)
                got = observe(contracted)
                acc.case(("objects", tname, dname), True, 2, str(got))
                if got != bare:
                    k = next(k for k in bare if bare[k] != got.get(k))
                    acc.violation(core.Violation(PROP, "calls_differ" if k == "call" else "metadata_" + k,
                                                 {"family": "objects", "target": tname, "deco": dname, "kind": tname, "sig": "-", "stack": dname},
                                                 "{} given to {}: bare {} vs contracted {}".format(tname, dname, bare, got), spec={"objects": True}, script=OBJECTS_SRC))
        acc.sample({"family": "objects"}, cap=1)
    finally:
        core.unload_source(ns)


def work(chunk):
    import warnings
    warnings.simplefilter("ignore", RuntimeWarning)
    acc = core.Acc()
    for item in chunk:
        if item["family"] == "objects":
            check_callable_objects(acc)
        elif item["family"] == "callable":
            check_callable(item, acc)
        else:
            check_class(item, acc)
    return acc.result()


def run(tier, t0):
    it = core.rotate(items(tier)) + [{"family": "objects"}]
    tot = core.merge(core.pmap(work, it))
    return core.finish(
        PROP, tier, tot, t0,
        rule="(a) callable kind (function, method, static/class method, async function/method, method whose first parameter is "
             "named 'this' / is *args, abstract method with abstractmethod above/below the contracts) x signature x decorator stack "
             "(1-4 contract decorators with a foreign functools.wraps decorator at every position{}), all contracts satisfied: "
             "compared with the bare twin - objects received by the body, identity of result / raised exception, how often the "
             "foreign decorator ran, name/qualname/doc/module/annotations/signature/abstractness/coroutine-ness, __wrapped__ chain, "
             "exactly one checker; (b) class style (plain, __slots__, dataclass, NamedTuple, no __init__, user __new__, __init__ "
             "with parameters) x invariant check_on combinations x object|DBC x subclass variant (none, plain/DBC without "
             "__init__, with __init__(z), overriding __new__): a fixed script of constructions and member uses must behave as on "
             "the twin; non-trivial = every program".format(", two foreign decorators" if tier == "thorough" else ""),
        assumptions=["passing kwargs through rebuilt dict objects is not observable by identity of values and is not claimed"],
        bounds={"programs": len(it)},
    )


def replay(path):
    data = json.load(open(path))["spec"]
    acc = core.Acc()
    if data.get("objects"):
        check_callable_objects(acc)
    else:
        (check_callable if data["item"]["family"] == "callable" else check_class)(data["item"], acc)
    for v in acc.violations[:5]:
        print("VIOLATION property={} replay={}".format(PROP, path))
        print(" ", v.symptom, v.detail[:500])
    return 1 if acc.violations else 0
