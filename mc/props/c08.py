"""C08 - OLD snapshots capture pre-state once, after the preconditions and before the body."""
import itertools
import json

from .. import core, fam
from . import famcheck

PROP = "C08"
ROLES = ("pre", "cap", "body", "post", "errfac")


def specs(tier):
    out = []
    base_q = [None, [(1, 1, 1)], [(0, 1, 0)]]
    base_t = base_q + [[(1, 1, 1), (1, 1, 1)], [(1, 1, 1), None], [(0, 1, 2)], [(1, 2, 0), (0, 1, 1)]]
    for kind in fam.KINDS:
        for is_async in ([False, True] if kind in fam.ASYNCABLE else [False]):
            for dbc in ([False, True] if kind != "func" else [False]):
                for base in ((base_q if tier == "quick" else base_t) if dbc else [None]):
                    for snap in (0, 1, 2):
                        for post in ((1, 2) if tier == "quick" else (0, 1, 2)):
                            for pre in ((0, 2) if tier == "quick" else (0, 1, 2)):
                                if snap and not post:
                                    continue  # definition-time family below
                                levels = []
                                base_pre = False
                                for b in base or []:
                                    if b is None:
                                        levels.append({"defines": False})
                                    else:
                                        levels.append({"pre": b[0], "post": b[1], "snap": b[2], "defines": True})
                                        base_pre = base_pre or b[0] > 0
                                if base and not base_pre and pre and kind not in ("init", "new"):
                                    continue
                                levels.append({"pre": pre, "post": post, "snap": snap, "defines": True})
                                for cap_alias, post_old in ((False, "all"), (True, "all"), (False, "none")):
                                    idx = len(out)
                                    out.append({"kind": kind, "is_async": is_async, "dbc": dbc, "levels": levels,
                                                "style": (("def", "lambda", "adef")[idx % 3] if is_async else ("def", "lambda")[idx % 2]),
                                                "err": ("fac", "default", "cls", "inst")[(idx // 2) % 4] if post_old == "all" else "fac",
                                                "cap_alias": cap_alias, "post_old": post_old, "err_base": idx % 5 == 3})
    return out


def params(spec):
    _, groups, posts, snaps, invs, _ = fam.effective(spec)
    pre_names = [n for g in groups for n in g]
    for ptruth in fam.limited_truths(pre_names, max_full=4, max_falsy=2):
        post_opts = [dict()] + [{q: False} for q in posts]
        for pt in post_opts:
            truth = dict(ptruth)
            truth.update({q: True for q in posts})
            truth.update(pt)
            for mut in ("none", "append", "rebind"):
                yield truth, "ret_obj", mut, "pos"
            yield truth, "raise_exc", "append", "pos"


def symptom_of(exp, obs):
    if exp is None:
        return "extra_" + obs[0]
    if obs is None:
        return "missing_" + exp[0]
    if exp[0] != obs[0]:
        if obs[0] == "cap" or exp[0] == "cap":
            return "capture_position"
        return "order_{}_instead_of_{}".format(obs[0], exp[0])
    if exp[1] != obs[1]:
        return "order_within_" + exp[0]
    if exp[0] in ("post", "errfac") and exp[-1] != obs[-1]:
        return "OLD_value_seen_by_" + exp[0]
    return "event_payload_" + exp[0]


def nontrivial(spec, truth, body_mode, mut):
    return any(lv["snap"] for lv in spec["levels"])


def work(chunk):
    acc = core.Acc()
    for spec in chunk:
        famcheck.check_spec(PROP, spec, acc, ROLES, params, symptom_of, nontrivial)
    return acc.result()


# ---------------------------------------------------------------------------------------------
# definition-time family: small hand-enumerated programs x callable kinds

HDR = "import icontract\nimport functools\nCALLS = []\n"

# how a contracted member of each kind is written: (prefix lines, def line, body, how to call it)
KIND_TMPL = {
    "func": ("", "def f(x):", "f([1])", False),
    "method": ("", "def f(self, x):", "K().f([1])", True),
    "static": ("@staticmethod\n", "def f(x):", "K.f([1])", True),
    "classm": ("@classmethod\n", "def f(cls, x):", "K.f([1])", True),
    "pset": ("@property\ndef f(self):\n    return 1\n@f.setter\n", "def f(self, x):", "setattr(K(), 'f', [1])", True),
    "afunc": ("", "async def f(x):", "RUN(f([1]))", False),
}


def member(kind, decos, cls_name="K", base="", body="return x"):
    pre, head, call, in_class = KIND_TMPL[kind]
    lines = pre + "".join(d + "\n" for d in decos) + head + "\n    " + body + "\n"
    if not in_class:
        return lines, call
    ind = "".join("    " + ln + "\n" for ln in lines.splitlines())
    return "class {}{}:\n{}".format(cls_name, "({})".format(base) if base else "", ind), call.replace("K", cls_name)


def def_cases(tier):
    """Yield (label, source_define, source_call or None, expectation) with expectation =
    ("define", ExcName) | ("call", ExcName, substring) | ("ok",)."""
    cases = []
    kinds = list(KIND_TMPL)
    for kind in kinds:
        ens = "@icontract.ensure(lambda result: True)"
        # duplicate name on one function
        src, call = member(kind, ["@icontract.snapshot(lambda x: x[:], name='a')", "@icontract.snapshot(lambda x: len(x), name='a')", ens])
        cases.append(("dup_same_function/" + kind, src, call, ("define", "ValueError")))
        # two different names are fine; argument name as default name
        src, call = member(kind, ["@icontract.snapshot(lambda x: x[:])", "@icontract.snapshot(lambda x: len(x), name='n')",
                                  "@icontract.ensure(lambda OLD, result: OLD.x == [1] and OLD.n == 1)"])
        cases.append(("two_names_ok/" + kind, src, call, ("ok",)))
        # unnamed capture with zero / two parameters
        src, call = member(kind, ["@icontract.snapshot(lambda: 1)", ens])
        cases.append(("unnamed_zero_params/" + kind, src, call, ("define", "ValueError")))
        if kind in ("method", "pset"):
            src, call = member(kind, ["@icontract.snapshot(lambda self, x: 1)", ens])
            cases.append(("unnamed_two_params/" + kind, src, call, ("define", "ValueError")))
            src, call = member(kind, ["@icontract.snapshot(lambda self, x: len(x), name='n')", "@icontract.ensure(lambda OLD: OLD.n == 1)"])
            cases.append(("named_two_params_ok/" + kind, src, call, ("ok",)))
        # a capture whose own code raises (a TypeError: the kind of error a mis-supplied argument would give as well): it is
        # evaluated once, the error reaches the caller, nothing is retried
        helper = ("def raising_cap(x):\n    CALLS.append('cap')\n    raise TypeError('boom of the capture')\n"
                  "def once(thunk):\n    try:\n        thunk()\n    except TypeError as e:\n        assert 'boom of the capture' in str(e), e\n"
                  "    else:\n        raise AssertionError('the error of the capture is lost')\n"
                  "    if CALLS != ['cap']:\n        raise AssertionError('the capture ran {} times'.format(len(CALLS)))\n")
        src, call = member(kind, ["@icontract.snapshot(raising_cap, name='a')", ens])
        cases.append(("raising_capture_once/" + kind, helper + src, "once(lambda: {})".format(call), ("ok",)))
        # unnamed capture with several parameters, only one of them mandatory
        src, call = member(kind, ["@icontract.snapshot(lambda x, n=2: x[:n])", ens])
        cases.append(("unnamed_two_params_one_defaulted/" + kind, src, call, ("define", "ValueError")))
        src, call = member(kind, ["@icontract.snapshot(lambda x, *, n=2: x[:n])", ens])
        cases.append(("unnamed_two_params_one_keyword_only/" + kind, src, call, ("define", "ValueError")))
        # named zero-parameter capture is fine
        src, call = member(kind, ["@icontract.snapshot(lambda: 7, name='seven')", "@icontract.ensure(lambda OLD: OLD.seven == 7)"])
        cases.append(("named_zero_params_ok/" + kind, src, call, ("ok",)))
        # snapshot not preceded by a postcondition: bare, preconditions only, postcondition *above* it
        src, call = member(kind, ["@icontract.snapshot(lambda x: x[:])"])
        cases.append(("snapshot_on_bare/" + kind, src, call, ("define", "ValueError")))
        src, call = member(kind, ["@icontract.snapshot(lambda x: x[:])", "@icontract.require(lambda x: True)"])
        cases.append(("snapshot_after_require_only/" + kind, src, call, ("define", "ValueError")))
        src, call = member(kind, [ens, "@icontract.snapshot(lambda x: x[:])"])
        cases.append(("postcondition_above_snapshot_only/" + kind, src, call, ("define", "ValueError")))
        src, call = member(kind, ["@icontract.snapshot(lambda x: x[:])", "@icontract.require(lambda x: True)", ens])
        cases.append(("snapshot_require_ensure_ok/" + kind, src, call, ("ok",)))
        # reading a name that was never captured / OLD without any snapshot
        src, call = member(kind, ["@icontract.snapshot(lambda x: x[:], name='a')", "@icontract.ensure(lambda OLD: OLD.never_captured == 1)"])
        cases.append(("unknown_old_name/" + kind, src, call, ("call", "AttributeError", "never_captured")))
        src, call = member(kind, ["@icontract.ensure(lambda OLD: OLD.a == 1)"])
        cases.append(("old_without_snapshot/" + kind, src, call, ("call", "TypeError", "OLD")))
    # hierarchies (DBC): methods and property setters
    for kind in ("method", "pset", "static", "classm"):
        ens_a = "@icontract.ensure(lambda OLD: OLD.a == [1])"
        snap_a = "@icontract.snapshot(lambda x: x[:], name='a')"
        snap_b = "@icontract.snapshot(lambda x: len(x), name='b')"
        A, _ = member(kind, [snap_a, ens_a], "A", "icontract.DBC")
        # inherited snapshot is available to the child's postcondition; names differ -> fine
        B, callB = member(kind, [snap_b, "@icontract.ensure(lambda OLD: OLD.a == [1] and OLD.b == 1)"], "B", "A")
        cases.append(("inherit_ok/" + kind, A + B, callB, ("ok",)))
        # duplicate along a chain
        B2, callB2 = member(kind, [snap_a, ens_a], "B", "A")
        cases.append(("dup_chain/" + kind, A + B2, callB2, ("define", "ValueError")))
        # duplicate across a gap (middle class does not override)
        C3, callC3 = member(kind, [snap_a, ens_a], "C", "B")
        cases.append(("dup_chain_gap/" + kind, A + "class B(A):\n    pass\n" + C3, callC3, ("define", "ValueError")))
        # duplicate across two unrelated bases
        A2, _ = member(kind, [snap_a, ens_a], "A2", "icontract.DBC")
        C, callC = member(kind, [], "C", "A, A2")
        cases.append(("dup_two_bases_override/" + kind, A + A2 + C, callC, ("define", "ValueError")))
        Cs, callCs = member(kind, [snap_b, "@icontract.ensure(lambda OLD: OLD.b == 1)"], "C", "A, A2")
        cases.append(("dup_two_bases_override_with_own/" + kind, A + A2 + Cs, callCs, ("define", "ValueError")))
        # different names on two bases are fine
        A3, _ = member(kind, [snap_b, "@icontract.ensure(lambda OLD: OLD.b == 1)"], "A3", "icontract.DBC")
        C2, callC2 = member(kind, [], "C", "A, A3")
        cases.append(("two_bases_distinct_ok/" + kind, A + A3 + C2, callC2, ("ok",)))
        # diamond: the same snapshot reaches D along two paths - not a duplicate
        Bd, _ = member(kind, [], "B", "A")
        Cd, _ = member(kind, [], "C", "A")
        D, callD = member(kind, [], "D", "B, C")
        cases.append(("diamond_same_snapshot/" + kind, A + Bd + Cd + D, callD, ("ok",)))
    return cases


def run_def_case(case):
    label, src, call, expect = case
    run = "def RUN(c):\n    try:\n        while True: c.send(None)\n    except StopIteration as s:\n        return s.value\n"
    stage, exc = "ok", None
    ns = None
    try:
        ns = core.fresh_ctx_run(core.load_source, HDR + run + src, "c08def")
    except Exception as e:
        stage, exc = "define", e
    if ns is not None:
        try:
            core.fresh_ctx_run(eval, call, ns)
        except Exception as e:
            stage, exc = "call", e
        core.unload_source(ns)
    got = (stage,) if stage == "ok" else (stage, type(exc).__name__)
    ok = got == tuple(expect[:2])
    if ok and len(expect) > 2 and expect[2] not in str(exc):
        ok = False
    return ok, got, exc


def work_def(chunk):
    acc = core.Acc()
    for case in chunk:
        ok, got, exc = run_def_case(case)
        label = case[0]
        acc.case(("def", label), nontrivial=True, events=1, outcome=got)
        if not ok:
            name, kind = label.split("/")
            acc.violation(core.Violation(
                PROP, "definition_family_" + name, {"case": name, "kind": kind, "got": "/".join(got)},
                "case {}: expected {} got {} ({!r})".format(label, case[3], got, exc),
                spec={"def_case": label}, script=HDR + case[1] + "\n" + (case[2] or "") + "\n"))
        acc.sample({"def_case": label, "expect": case[3]}, cap=2)
    return acc.result()


def run(tier, t0):
    sp = core.rotate(specs(tier))
    tot1 = core.merge(core.pmap(work, sp))
    dc = def_cases(tier)
    tot2 = core.merge(core.pmap(work_def, dc, nproc=4))
    tot = core.merge_totals([tot1, tot2])
    return core.finish(
        PROP, tier, tot, t0,
        rule="(a) family F programs with 0-2 own and 0-2 inherited snapshots x pre stacks with all truth assignments x each "
             "postcondition falsy in turn x body mutation (none/append/rebind) and raising bodies x capture copies/aliases x "
             "OLD read by conditions or only by error factories: capture events exactly once, after the last precondition, "
             "before the body, never after a failed precondition, never without postconditions; OLD contents and identity; "
             "(b) {} definition-time programs (duplicates on a function / along a chain / across a gap / across two bases, "
             "diamond, unnamed captures, snapshots not preceded by a postcondition, unknown OLD names) x callable kinds; "
             "non-trivial = the program has at least one snapshot".format(len(dc)),
        assumptions=["captures are side-effect free apart from logging"],
        bounds={"programs": len(sp), "definition_cases": len(dc), "max_snapshots_per_level": 2, "max_levels": 3},
    )


def replay(path):
    data = json.load(open(path))["spec"]
    if "def_case" in data:
        for case in def_cases("thorough"):
            if case[0] == data["def_case"]:
                ok, got, exc = run_def_case(case)
                print("case", case[0], "expected", case[3], "got", got, repr(exc))
                if not ok:
                    print("VIOLATION property={} replay={}".format(PROP, path))
                return 0 if ok else 1
        return 2
    return famcheck.replay(PROP, path, ROLES, symptom_of)
