"""C16 - deterministic evaluation order and first-failure reporting: the complete event log equals the
reference order for every program of family F and every truth assignment."""
import itertools

from .. import core, fam
from . import famcheck

PROP = "C16"
ROLES = ("inv", "pre", "cap", "body", "post", "errfac")  # foreign decorators are C14's business


def specs(tier):
    out = []
    own_opts = []
    for pre in range(0, 3):
        for post in range(0, 3):
            for snap in ((0, 1) if post else (0,)):
                own_opts.append((pre, post, snap))
    if tier == "thorough":
        own_opts += [(3, 0, 0), (3, 3, 2), (0, 3, 2), (1, 3, 1)]
    base_opts_q = [None, [(1, 1, 0, 1)], [(2, 0, 0, 0)], [(0, 2, 1, 1)]]
    base_opts_t = base_opts_q + [[(1, 0, 0, 1), (1, 1, 1, 0)], [(1, 1, 0, 0), None], [(2, 2, 1, 2)], [(0, 1, 0, 0), (0, 1, 1, 1)]]
    for kind in fam.KINDS:
        for is_async in ([False, True] if kind in fam.ASYNCABLE else [False]):
            for dbc in ([False, True] if kind != "func" else [False]):
                bases = (base_opts_q if tier == "quick" else base_opts_t) if dbc else [None]
                for base in bases:
                    for (pre, post, snap) in own_opts:
                        for inv in ((0, 2) if tier == "quick" else (0, 1, 2)):
                            if inv and kind == "func":
                                continue
                            levels = []
                            base_has_pre = False
                            provided = False
                            skip = False
                            for b in base or []:
                                if b is None:
                                    levels.append({"defines": False})
                                else:
                                    levels.append({"pre": b[0], "post": b[1], "snap": b[2], "inv": b[3], "defines": True})
                                    if provided and not base_has_pre and b[0]:
                                        skip = True
                                    base_has_pre = base_has_pre or b[0] > 0
                                    provided = True
                            if skip:
                                continue
                            if provided and not base_has_pre and pre and kind not in ("init", "new"):
                                continue  # rejected at class creation; that is C04's business
                            levels.append({"pre": pre, "post": post, "snap": snap, "inv": inv, "defines": True})
                            for foreign in (None, "top", "mid", "bottom"):
                                if foreign and tier == "quick" and (inv == 1 or pre + post > 3):
                                    continue
                                idx = len(out)
                                out.append({
                                    "kind": kind, "is_async": is_async, "dbc": dbc, "levels": levels,
                                    "style": (("def", "lambda", "adef")[idx % 3] if is_async else ("def", "lambda")[idx % 2]),
                                    "err": ("default", "cls", "fac", "inst")[(idx // 2) % 4],
                                    "layout": ("grouped", "interleaved")[(idx // 8) % 2],
                                    "foreign": foreign, "err_base": idx % 5 == 3,
                                })
                                if dbc and base and foreign is None and kind not in ("new",):
                                    # the same program with the leaf class re-created from its own namespace
                                    out.append(dict(out[-1], recreate=True))
    return out


def params(spec):
    names = fam.relevant_names(spec)
    shape = "pos"
    for truth in fam.limited_truths(names, max_full=6, max_falsy=3):
        yield truth, "ret_obj", "none", shape


def symptom_of(exp, obs):
    if exp is None:
        return "extra_evaluation_" + obs[0]
    if obs is None:
        return "missing_evaluation_" + exp[0]
    if exp[0] != obs[0]:
        return "phase_order_{}_instead_of_{}".format(obs[0], exp[0])
    if exp[1] != obs[1]:
        return "order_within_" + exp[0]
    return "event_payload_" + exp[0]


def nontrivial(spec, truth, body_mode, mut):
    return sum(1 for v in truth.values() if not v) >= 2 or (len(truth) >= 2 and all(truth.values()))


def work(chunk):
    acc = core.Acc()
    for spec in chunk:
        famcheck.check_spec(PROP, spec, acc, ROLES, params, symptom_of, nontrivial)
    return acc.result()


def run(tier, t0):
    sp = core.rotate(specs(tier))
    tot = core.merge(core.pmap(work, sp))
    return core.finish(
        PROP, tier, tot, t0,
        rule="family F programs (kind x sync/async x plain/DBC chain of <=3 classes x own/inherited stacks of pre/post/"
             "snapshot/invariant x decorator layout x condition style x error form) x all truth assignments (<=6 conditions: "
             "all 2^n; more: all with <=3 falsy); complete event log and reported error compared with the reference order; "
             "non-trivial = >=2 falsy conditions, or all true with >=2 conditions",
        assumptions=["single inheritance chains here; several bases / diamonds are explored by C04",
                     "a violated lambda condition may be re-evaluated once (documented)"],
        bounds={"programs": len(sp), "max_stack": 3, "max_levels": 3},
    )


def replay(path):
    return famcheck.replay(PROP, path, ROLES, symptom_of)
