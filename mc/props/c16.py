"""C16 - deterministic evaluation order and first-failure reporting: the complete event log equals the
reference order for every program of family F and every truth assignment."""
import itertools

from .. import core, fam
from . import famcheck

PROP = "C16"
ROLES = ("inv", "pre", "cap", "body", "post", "errfac")  # foreign decorators are C14's business


def specs(tier):
    out = []
    own_opts = []
    for pre in range(0, 3):
        for post in range(0, 3):
            for snap in ((0, 1) if post else (0,)):
                own_opts.append((pre, post, snap))
    if tier == "thorough":
        own_opts += [(3, 0, 0), (3, 3, 2), (0, 3, 2), (1, 3, 1)]
    base_opts_q = [None, [(1, 1, 0, 1)], [(2, 0, 0, 0)], [(0, 2, 1, 1)]]
    base_opts_t = base_opts_q + [[(1, 0, 0, 1), (1, 1, 1, 0)], [(1, 1, 0, 0), None], [(2, 2, 1, 2)], [(0, 1, 0, 0), (0, 1, 1, 1)]]
    for kind in fam.KINDS:
        for is_async in ([False, True] if kind in fam.ASYNCABLE else [False]):
            for dbc in ([False, True] if kind != "func" else [False]):
                bases = (base_opts_q if tier == "quick" else base_opts_t) if dbc else [None]
                for base in bases:
                    for (pre, post, snap) in own_opts:
                        for inv in ((0, 2) if tier == "quick" else (0, 1, 2)):
                            if inv and kind == "func":
                                continue
                            levels = []
                            base_has_pre = False
                            provided = False
                            skip = False
                            for b in base or []:
                                if b is None:
                                    levels.append({"defines": False})
                                else:
                                    levels.append({"pre": b[0], "post": b[1], "snap": b[2], "inv": b[3], "defines": True})
                                    if provided and not base_has_pre and b[0]:
                                        skip = True
                                    base_has_pre = base_has_pre or b[0] > 0
                                    provided = True
                            if skip:
                                continue
                            if provided and not base_has_pre and pre and kind not in ("init", "new"):
                                continue  # rejected at class creation; that is C04's business
                            levels.append({"pre": pre, "post": post, "snap": snap, "inv": inv, "defines": True})
                            for foreign in (None, "top", "mid", "bottom"):
                                if foreign and tier == "quick" and (inv == 1 or pre + post > 3):
                                    continue
                                idx = len(out)
                                # check_on of the invariants rotates: CALL only / ALL+SETATTR / SETATTR+ALL / CALL+ALL (per level, cut to its number)
                                lv_on = []
                                for li, lv in enumerate(levels):
                                    lv = dict(lv)
                                    if lv.get("inv") and kind != "pset":  # (assignment to a property under SETATTR invariants: C03, KF-C03-3)
                                        lv["inv_on"] = ("CC", "AS", "SA", "CA")[(idx // 4 + li) % 4][:lv["inv"]]
                                    lv_on.append(lv)
                                out.append({
                                    "kind": kind, "is_async": is_async, "dbc": dbc, "levels": lv_on,
                                    "style": (("def", "lambda", "adef", "amix")[idx % 4] if is_async else ("def", "lambda")[idx % 2]),
                                    "err": ("default", "cls", "fac", "inst")[(idx // 2) % 4],
                                    "layout": ("grouped", "interleaved")[(idx // 8) % 2],
                                    "foreign": foreign, "err_base": idx % 5 == 3,
                                })
                                if dbc and base and foreign is None and kind not in ("new",):
                                    # the same program with the leaf class re-created from its own namespace
                                    out.append(dict(out[-1], recreate=True))
    return out


def params(spec):
    names = fam.relevant_names(spec)
    shape = "pos"
    for truth in fam.limited_truths(names, max_full=6, max_falsy=3):
        yield truth, "ret_obj", "none", shape


def symptom_of(exp, obs):
    if exp is None:
        return "extra_evaluation_" + obs[0]
    if obs is None:
        return "missing_evaluation_" + exp[0]
    if exp[0] != obs[0]:
        return "phase_order_{}_instead_of_{}".format(obs[0], exp[0])
    if exp[1] != obs[1]:
        return "order_within_" + exp[0]
    return "event_payload_" + exp[0]


def nontrivial(spec, truth, body_mode, mut):
    return sum(1 for v in truth.values() if not v) >= 2 or (len(truth) >= 2 and all(truth.values()))


# ---------------------------------------------------------------------------------------------------------------
# several bases: the order among the contracts that reach a class over more than one path

MULTI_SRC = '''\
import icontract
LOG = []
T = {}
def mk(role, name):
    if role == "post":
        def cond(result):
            LOG.append((role, name))
            return T.get(name, True)
    else:
        def cond(self):
            LOG.append((role, name))
            return T.get(name, True)
    cond.__name__ = name
    return cond
class Err(Exception): pass
def err(name):
    return type("E_" + name, (Exception,), {})
ERRS = {n: err(n) for n in ("qa", "qb", "qc", "qd", "qm", "ia", "ib", "id", "pa", "pd", "ish", "qsa")}
@icontract.invariant(mk("inv", "ia"), error=ERRS["ia"])
class A(icontract.DBC):
    @icontract.require(mk("pre", "pa"), error=ERRS["pa"])
    @icontract.ensure(mk("post", "qa"), error=ERRS["qa"])
    {adef} f(self):
        return 1
@icontract.invariant(mk("inv", "ib"), error=ERRS["ib"])
class B(A):
    @icontract.ensure(mk("post", "qb"), error=ERRS["qb"])
    {adef} f(self):
        return 1
class C(A):
    @icontract.ensure(mk("post", "qc"), error=ERRS["qc"])
    {adef} f(self):
        return 1
class M(icontract.DBC):
    @icontract.ensure(mk("post", "qm"), error=ERRS["qm"])
    {adef} f(self):
        return 1
@icontract.invariant(mk("inv", "id"), error=ERRS["id"])
class D(B, C):
    @icontract.ensure(mk("post", "qd"), error=ERRS["qd"])
    {adef} f(self):
        LOG.append(("body", "D"))
        return 1
class D2(C, B):
    @icontract.ensure(mk("post", "qd"), error=ERRS["qd"])
    {adef} f(self):
        LOG.append(("body", "D2"))
        return 1
# one invariant DECORATOR OBJECT used for a class and for its sub-class
inv_shared = icontract.invariant(mk("inv", "ish"), error=ERRS["ish"])
@inv_shared
class SA(icontract.DBC):
    @icontract.ensure(mk("post", "qsa"), error=ERRS["qsa"])
    {adef} f(self):
        return 1
@inv_shared
class SB(SA):
    pass
class D3(B, M):
    @icontract.ensure(mk("post", "qd"), error=ERRS["qd"])
    {adef} f(self):
        LOG.append(("body", "D3"))
        return 1
'''
# for each class: (posts in effect, precedence constraints "x before y": an inherited contract precedes the own contracts of the
# class that inherited it, and everything inherited precedes the own contracts of the class itself)
MULTI = {
    "D": (["qa", "qb", "qc", "qd"], [("qa", "qb"), ("qa", "qc"), ("qb", "qd"), ("qc", "qd"), ("qa", "qd")], ["ia", "ib", "id"]),
    "D2": (["qa", "qb", "qc", "qd"], [("qa", "qb"), ("qa", "qc"), ("qb", "qd"), ("qc", "qd"), ("qa", "qd")], ["ia", "ib"]),
    "SB": (["qsa"], [], ["ish"]),
    "D3": (["qa", "qb", "qm", "qd"], [("qa", "qb"), ("qb", "qd"), ("qm", "qd"), ("qa", "qd")], ["ia", "ib"]),
}


def check_multi(acc):
    import itertools
    for is_async in (False, True):
        ns = core.load_source(MULTI_SRC.replace("{adef}", "async def" if is_async else "def"), "c16m")
        try:
            for cls, (posts, before, invs) in sorted(MULTI.items()):
                def run(truth):
                    def go():
                        ns["T"].clear()
                        obj = ns[cls]()
                        ns["T"].update(truth)
                        del ns["LOG"][:]
                        try:
                            r = obj.f()
                            if is_async:
                                r = core.run_coro(r)
                            return "ret"
                        except BaseException as e:  # noqa
                            return type(e).__name__
                    return core.fresh_ctx_run(go), list(ns["LOG"])
                out, log = run({})
                order = [n for r, n in log if r == "post"]
                first = {n: order.index(n) for n in posts if n in order}
                f0 = {"family": "several_bases", "cls": cls, "is_async": is_async}
                acc.case(("multi", cls, is_async, ()), True, len(log), out)
                bad = None
                counts = {}
                for r, n in log:
                    counts[(r, n)] = counts.get((r, n), 0) + 1
                # one check = invariants before, preconditions, body, postconditions, invariants after
                many = sorted(k for k, c in counts.items() if c > (2 if k[0] == "inv" else 1))
                if out != "ret" or set(order) != set(posts):
                    bad = ("postcondition_set", "all true: outcome {} evaluated {} expected each of {}".format(out, order, posts))
                elif many:
                    bad = ("condition_evaluated_more_than_once", "all true: {} evaluated more than once per check (a condition reaching the class over "
                           "several inheritance paths is still one condition): log {}".format(many, log))
                else:
                    for x, y in before:
                        if first[x] > first[y]:
                            bad = ("order_across_bases", "{} (inherited) is evaluated after {} (own contract of an inheriting class): order {}".format(x, y, order))
                            break
                    phases = [r for r, _ in log]
                    if not bad and (("pre" in phases and phases.index("pre") < phases.index("inv")) or "inv" not in phases[phases.index("post"):]):
                        bad = ("phase_order", "log {}".format(log))
                if bad:
                    acc.violation(core.Violation(PROP, bad[0], f0, "{}.f(): {}".format(cls, bad[1]), spec={"multi": cls}, script=MULTI_SRC))
                    continue
                # the inherited precondition falsy: one group (however many paths it is inherited over), evaluated once
                # (D3 also inherits f from M, which accepts every input: its effective precondition always holds)
                out1, log1 = run({"pa": False})
                acc.case(("multi", cls, is_async, ("pa",)), True, len(log1), out1)
                n_pa = sum(1 for r, n in log1 if (r, n) == ("pre", "pa"))
                if cls == "SB":
                    pass  # (no precondition in this hierarchy)
                elif cls == "D3":
                    if out1 != "ret":
                        acc.violation(core.Violation(PROP, "wrong_error_or_evaluation_continued", dict(f0, falsy="pa"),
                                                     "D3.f() inherits f also from a base without preconditions, but the call gave {}".format(out1),
                                                     spec={"multi": cls}, script=MULTI_SRC))
                elif out1 != "E_pa" or n_pa != 1:
                    acc.violation(core.Violation(PROP, "condition_evaluated_more_than_once" if out1 == "E_pa" else "wrong_error_or_evaluation_continued",
                                                 dict(f0, falsy="pa"), "{}.f() with the inherited precondition falsy: outcome {}, the condition was "
                                                 "evaluated {} time(s): log {}".format(cls, out1, n_pa, log1), spec={"multi": cls}, script=MULTI_SRC))
                # several falsy postconditions: the error is that of the first one in the evaluation order
                for k in (1, 2, 3):
                    for falsy in itertools.combinations(posts, k):
                        out2, log2 = run({n: False for n in falsy})
                        want = "E_" + min(falsy, key=lambda n: first[n])
                        acc.case(("multi", cls, is_async, falsy), True, len(log2), out2)
                        evaluated = [n for r, n in log2 if r == "post"]
                        if out2 != want or evaluated != order[:order.index(want[2:]) + 1]:
                            acc.violation(core.Violation(PROP, "wrong_error_or_evaluation_continued", dict(f0, falsy=",".join(falsy)),
                                                         "{}.f() with {} falsy: expected {} after evaluating {}, got {} after {}".format(
                                                             cls, falsy, want, order[:order.index(want[2:]) + 1], out2, evaluated),
                                                         spec={"multi": cls}, script=MULTI_SRC))
                            break
            acc.sample({"family": "several_bases", "async": is_async}, cap=1)
        finally:
            core.unload_source(ns)


# ---------------------------------------------------------------------------------------------------------------
# a violated lambda is re-evaluated ONCE for its message: helpers called inside it run at most twice as often as in one evaluation

REEVAL_SHAPES = [
    "h('a', x)", "h('a', x) and h('b', x)", "h('a', not x) and h('b', x)", "not h('a', not x)", "h('a', x) == 1", "h('a', h('b', x))",
    "all(h('a', v) for v in [x, x])", "all(h('a', v) for v in [1, x, 1])", "any(h('a', v) for v in [x, x])", "all(all(h('a', w) for w in [1, v]) for v in [1, x])",
    "all(h('a', v) for v in [1, 1]) and h('b', x)", "[h('a', v) for v in [x, 1]][0]", "all([h('a', v) for v in [1, x]])", "len([v for v in [1, x] if h('a', v)]) > 1",
    "h('a', 1 if h('b', x) else 2) and False", "(t := h('a', x)) and t", "all(h('a', v) and h('b', v) for v in [1, x])", "all(h('a', v) for v in [1] if h('b', x))  and False",
    "all(h('a', v) for v in [1, 2]) and all(h('b', v) for v in [1, x])", "sum(h('a', v) for v in [x, 1]) > 5", "h('a', x) if h('b', 1) else h('c', 1)",
]
REEVAL_SRC = '''\
import icontract
CALLS = []
class MyErr(Exception): pass
def h(tag, v):
    CALLS.append(tag)
    return v
def RUN(c):
    try:
        c.send(None)
    except StopIteration as e:
        return e.value
    raise AssertionError("suspended")
async def _later(v):
    return v
def ah(tag, v):
    # a plain function which hands back an awaitable (the documented work-around for the missing async lambdas)
    CALLS.append(tag)
    return _later(v)
@icontract.require(lambda x: ah('a', x))
async def aw_pre(x):
    return x
@icontract.ensure(lambda x, result: ah('a', x))
async def aw_post(x):
    return x
@icontract.require(lambda x: ah('a', x))
@icontract.snapshot(lambda x: ah('c', x), name="s")
@icontract.ensure(lambda x, result: ah('b', x))
async def aw_all(x):
    return x
'''


def check_reeval(acc):
    import icontract
    w = [REEVAL_SRC]
    progs = []
    for si, shape in enumerate(REEVAL_SHAPES):
        for role in ("pre", "post", "inv"):
            for err in ("", ", error=MyErr"):
                for adef in ("def", "async def"):
                    name = "f{}".format(len(progs))
                    if role == "inv":
                        if adef != "def":
                            continue
                        w.append("@icontract.invariant(lambda self: {}{})\nclass {}:\n    def __init__(self, x):\n        self.x = x\n".format(
                            shape.replace("x)", "self.x)").replace("x]", "self.x]").replace("x,", "self.x,").replace("not x", "not self.x"), err, name))
                    elif role == "pre":
                        w.append("@icontract.require(lambda x: {}{})\n{} {}(x):\n    return x\n".format(shape, err, adef, name))
                    else:
                        w.append("@icontract.ensure(lambda x, result: {}{})\n{} {}(x):\n    return x\n".format(shape, err, adef, name))
                    progs.append((name, shape, role, err, adef))
    src = "".join(w)
    ns = core.fresh_ctx_run(core.load_source, src, "c16r")
    try:
        for name, shape, role, err, adef in progs:
            for x in (0, 1):
                # one evaluation by Python itself
                del ns["CALLS"][:]
                try:
                    value = eval(shape, {"h": ns["h"], "x": x})
                except Exception:
                    continue
                once = list(ns["CALLS"])
                del ns["CALLS"][:]

                def call():
                    try:
                        r = ns[name](x)
                        if adef != "def":
                            ns["RUN"](r)
                        return "ret"
                    except BaseException as e:  # noqa
                        return type(e).__name__
                out = core.fresh_ctx_run(call)
                calls = list(ns["CALLS"])
                acc.case(("reeval", name, x), True, len(calls), out)
                feats = {"part": "reeval", "role": role, "err": err or "default", "adef": adef, "shape": shape, "falsy": not value}
                want_exc = ("MyErr" if err else "ViolationError") if not value else "ret"
                bad = None
                if out != want_exc:
                    bad = ("reeval_outcome", "expected {} got {}".format(want_exc, out))
                else:
                    for tag in sorted(set(once) | set(calls)):
                        limit = once.count(tag) * (2 if not value else 1)
                        if calls.count(tag) > limit or calls.count(tag) < once.count(tag):
                            bad = ("condition_parts_evaluated_too_often", "helper {!r}: {} calls in one evaluation by Python, {} during the check (allowed {}..{})".format(
                                tag, once.count(tag), calls.count(tag), once.count(tag), limit))
                            break
                if bad:
                    acc.violation(core.Violation(PROP, bad[0], feats, "{} {} `{}` x={}: {}".format(role, adef, shape, x, bad[1]), spec={"reeval": True},
                                                 script=src))
        # plain conditions / captures of async functions which hand back an awaitable: called once, awaited once
        for name, want in (("aw_pre", ["a"]), ("aw_post", ["a"]), ("aw_all", ["a", "c", "b"])):
            del ns["CALLS"][:]

            def call_aw():
                try:
                    return ("ret", ns["RUN"](ns[name](1)))
                except BaseException as e:  # noqa
                    return ("exc", type(e).__name__)
            out = core.fresh_ctx_run(call_aw)
            calls = list(ns["CALLS"])
            acc.case(("reeval_awaitable", name), True, len(calls), out[0])
            if out != ("ret", 1) or calls != want:
                acc.violation(core.Violation(PROP, "condition_parts_evaluated_too_often" if out == ("ret", 1) else "reeval_outcome",
                                             {"part": "reeval", "role": name, "err": "default", "adef": "async def", "shape": "ah(tag, x)", "falsy": False},
                                             "{}(1): helper calls {} (expected {}), outcome {}".format(name, calls, want, out), spec={"reeval": True}, script=src))
        acc.sample({"part": "reeval", "shapes": len(REEVAL_SHAPES)}, cap=1)
    finally:
        core.unload_source(ns)


def work(chunk):
    acc = core.Acc()
    for spec in chunk:
        if spec == "multi":
            check_multi(acc)
        elif spec == "reeval":
            check_reeval(acc)
        else:
            famcheck.check_spec(PROP, spec, acc, ROLES, params, symptom_of, nontrivial)
    return acc.result()


def run(tier, t0):
    sp = core.rotate(specs(tier)) + ["multi", "reeval"]
    tot = core.merge(core.pmap(work, sp))
    return core.finish(
        PROP, tier, tot, t0,
        rule="family F programs (kind x sync/async x plain/DBC chain of <=3 classes x own/inherited stacks of pre/post/"
             "snapshot/invariant x decorator layout x condition style x error form) x all truth assignments (<=6 conditions: "
             "all 2^n; more: all with <=3 falsy); complete event log and reported error compared with the reference order; "
             "non-trivial = >=2 falsy conditions, or all true with >=2 conditions",
        assumptions=["family F has single inheritance chains; for several bases (diamond in both base orders, two unrelated bases; sync/async) the "
                     "precedence 'inherited before own' and the first-failure error are checked on three hand-written hierarchies x all "
                     "sets of <=3 falsy postconditions; every condition at most once per check also when it reaches the class over two paths",
                     "a violated lambda condition may be re-evaluated once (documented); a separate part counts the calls of helpers inside "
                     "{} lambda shapes (boolean operators, all/any over generators, nested quantifiers, comprehensions, conditional and named "
                     "expressions) x role x error form x sync/async x falsy/truthy argument: at most twice the calls of one evaluation by Python when "
                     "violated, exactly those of one evaluation otherwise".format(len(REEVAL_SHAPES))],
        bounds={"programs": len(sp), "max_stack": 3, "max_levels": 3},
    )


def replay(path):
    import json
    spec_ = json.load(open(path))["spec"]
    if "multi" in spec_ or "reeval" in spec_:
        acc = core.Acc()
        (check_multi if "multi" in spec_ else check_reeval)(acc)
        for v in acc.violations:
            print("VIOLATION property={} replay={}".format(PROP, path))
            print(" ", v.symptom, v.detail[:600])
        return 1 if acc.violations else 0
    return famcheck.replay(PROP, path, ROLES, symptom_of)
