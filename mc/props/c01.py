"""C01 - preconditions gate every call (body runs iff the effective precondition holds)."""
import itertools
import json

from .. import core, fam

PROP = "C01"


def specs(tier):
    out = []
    max_own = 3
    for kind in fam.KINDS:
        for is_async in ([False, True] if kind in fam.ASYNCABLE else [False]):
            for dbc in ([False, True] if kind != "func" else [False]):
                base_opts = [None]
                if dbc:
                    # inherited groups: one or two base levels with 1-2 conditions each; or a gap
                    base_opts = [None, [1], [2]] if tier == "quick" else [None, [1], [2], [1, 1], [1, 0], [2, 1], [0, 1]]
                for base in base_opts:
                    for own in range(0, max_own + 1):
                        for post, snap in ((0, 0), (1, 0), (1, 1)):
                            for inv in (0, 1):
                                if inv and kind == "func":
                                    continue
                                levels = []
                                if base:
                                    for n in base:
                                        levels.append({"pre": n, "defines": True, "post": 0, "snap": 0, "inv": 0})
                                levels.append({"pre": own, "post": post, "snap": snap, "inv": inv, "defines": True})
                                # alternate style/err deterministically so that every combination of
                                # (style, err) meets every kind
                                for foreign in (None, "top", "mid", "bottom"):
                                    if foreign and (inv or (post, snap) != (1, 0)):
                                        continue  # foreign functools.wraps decorators: on the plain +post shape only
                                    idx = len(out)
                                    style = ("def", "lambda", "adef")[idx % 3] if is_async else ("def", "lambda")[idx % 2]
                                    err = ("default", "cls", "fac", "inst")[(idx // 2) % 4]
                                    out.append({"kind": kind, "is_async": is_async, "dbc": dbc, "levels": levels,
                                                "style": style, "err": err, "foreign": foreign, "err_base": idx % 5 == 3})
    return out


def features(spec, shape):
    return {
        "kind": spec["kind"], "is_async": spec["is_async"], "dbc": spec["dbc"],
        "pre": "/".join(str(lv["pre"]) for lv in spec["levels"]),
        "post": "/".join(str(lv["post"]) for lv in spec["levels"]),
        "snap": "/".join(str(lv["snap"]) for lv in spec["levels"]),
        "inv": "/".join(str(lv["inv"]) for lv in spec["levels"]),
        "style": spec["style"], "err": spec["err"], "shape": shape, "foreign": spec.get("foreign"), "err_base": spec.get("err_base", False),
    }


def check_spec(spec, acc, shapes=fam.CALL_SHAPES):
    spec = fam.norm(spec)
    def_error, groups, posts, snaps, invs, target = fam.effective(spec)
    prog = fam.Program(spec)
    try:
        f0 = features(spec, "-")
        if def_error is not None:
            acc.case(("def", json.dumps(spec, sort_keys=True)), nontrivial=True, events=1, outcome="def_error")
            if prog.def_exc is None or type(prog.def_exc).__name__ != def_error[0]:
                acc.violation(core.Violation(PROP, "missing_definition_error", f0,
                                             "expected {} at definition, got {!r}".format(def_error[0], prog.def_exc),
                                             spec={"spec": spec}, script=fam.render(spec)))
            return
        if prog.def_exc is not None:
            acc.case(("def", json.dumps(spec, sort_keys=True)), nontrivial=True, events=1, outcome="def_error")
            acc.violation(core.Violation(PROP, "unexpected_definition_error", f0,
                                         "definition raised {!r}".format(prog.def_exc),
                                         spec={"spec": spec}, script=fam.render(spec)))
            return
        pre_names = [n for g in groups for n in g]
        other = list(posts)
        names = pre_names + (other if len(pre_names) + len(other) <= 5 else [])
        key0 = json.dumps(spec, sort_keys=True)
        for truth in fam.truth_tables(names):
            dnf = (not groups) or any(all(truth[n] for n in g) for g in groups)
            falsy = {n for n in pre_names if not truth[n]}
            for shape in shapes:
                if spec["kind"] in ("pget", "pset", "pdel") and shape != "pos":
                    continue
                log, outcome = prog.call(truth, "ret_obj", "none", shape)
                acc.case((key0, tuple(sorted(truth.items())), shape), nontrivial=bool(pre_names),
                         events=len(log), outcome=(dnf, outcome[0]))
                body = any(ev[0] == "body" for ev in log)
                cap = any(ev[0] == "cap" for ev in log)
                sym = None
                if dnf and not body:
                    sym = "body_not_entered_although_pre_holds"
                elif not dnf and body:
                    sym = "body_entered_despite_violation"
                elif not dnf and cap:
                    sym = "capture_despite_violation"
                elif not dnf and not (outcome[0] == "exc" and outcome[1] in falsy):
                    sym = "wrong_error"
                elif dnf and outcome[0] == "exc" and outcome[1] in pre_names:
                    sym = "precondition_error_although_pre_holds"
                elif any(ev[0] == "pre" and ev[2] is not True for ev in log):
                    sym = "condition_saw_other_object"
                if sym is None and outcome[0] == "exc":
                    # the rejected call made twice in ONE context: the second call is gated exactly like the first
                    (l1, o1), (l2, o2) = prog.call_twice(truth, "ret_obj", "none", shape)
                    acc.bump("repeated_in_same_context")
                    if (l1, o1) != (log, outcome) or (l2, o2) != (log, outcome):
                        sym = "repeated_call_differs"
                        log, outcome = (l2, o2) if (l2, o2) != (log, outcome) else (l1, o1)
                if sym:
                    acc.violation(core.Violation(
                        PROP, sym, features(spec, shape),
                        "truth={} dnf={} outcome={} log={}".format(truth, dnf, outcome, log),
                        spec={"spec": spec, "truth": truth, "shape": shape},
                        script=fam.replay_script(spec, truth, "ret_obj", "none", shape)))
        acc.sample({"spec": spec, "truth_names": names})
    finally:
        prog.close()


# ---------------------------------------------------------------------------------------------------------------
# second family: diamonds (the same inherited group reaches a class over two paths) and call histories over
# mutable default arguments (the condition must see the very object the body sees)

def diamond_specs(tier):
    out = []
    for is_async in (False, True):
        for a in (0, 1):
            for b in (None, 0, 1):
                for c in (None, 0, 1):
                    for d in (None, 0, 1):
                        out.append({"fam": "diamond", "is_async": is_async, "opts": {"A": a, "B": b, "C": c, "D": d}})
    return out


DIAMOND_BASES = {"A": [], "B": ["A"], "C": ["A"], "D": ["B", "C"]}
DIAMOND_MRO = {"A": ["A"], "B": ["B", "A"], "C": ["C", "A"], "D": ["D", "B", "C", "A"]}


def render_diamond(spec):
    L = ["import icontract", "T = {}", "LOG = []",
         "def c(name):", "    LOG.append(('pre', name))", "    return T.get(name, True)", ""]
    for cls in "ABCD":
        bases = DIAMOND_BASES[cls] or ["icontract.DBC"]
        L.append("class {}({}):".format(cls, ", ".join(bases)))
        opt = spec["opts"][cls]
        if opt is None:
            L.append("    pass")
        else:
            if opt:
                L.append("    @icontract.require(lambda self, x: c('{}'))".format(cls.lower()))
            L.append("    {}def f(self, x):".format("async " if spec["is_async"] else ""))
            L.append("        LOG.append(('body', '{}'))".format(cls))
            L.append("        return x")
        L.append("")
    return "\n".join(L) + "\n"


def diamond_groups(spec, cls):
    """Reference: groups in effect for cls.f -- (groups, definition_error)."""
    opts = spec["opts"]

    def resolve(k):
        for m in DIAMOND_MRO[k]:
            if opts[m] is not None:
                return m
        return None

    memo = {}

    def groups_of_defining(k):
        # k defines f
        if k in memo:
            return memo[k]
        base_groups = []
        bases_have = False
        for b in DIAMOND_BASES[k]:
            r = resolve(b)
            if r is not None:
                bases_have = True
                g, err = groups_of_defining(r)
                if err:
                    memo[k] = ([], err)
                    return memo[k]
                base_groups += g
        own = [[k.lower()]] if opts[k] else []
        if not base_groups and bases_have and own:
            memo[k] = ([], "TypeError")
        else:
            memo[k] = (base_groups + own, None)
        return memo[k]

    # definition errors surface while the classes are created in order A, B, C, D
    for k in "ABCD":
        if opts[k] is not None:
            g, err = groups_of_defining(k)
            if err:
                return [], err
    r = resolve(cls)
    return groups_of_defining(r)[0], None


def check_diamond(spec, acc):
    src = render_diamond(spec)
    key0 = json.dumps(spec, sort_keys=True)
    f0 = {"fam": "diamond", "is_async": spec["is_async"], "opts": "".join(str(spec["opts"][k]) for k in "ABCD")}
    _, def_err = diamond_groups(spec, "D")
    try:
        ns = core.load_source(src, "c01d")
    except Exception as e:
        acc.case(("def", key0), True, 1, "def_error")
        if def_err != type(e).__name__:
            acc.violation(core.Violation(PROP, "unexpected_definition_error", f0, "definition raised {!r}".format(e),
                                         spec={"spec": spec}, script=src))
        return
    try:
        if def_err:
            acc.case(("def", key0), True, 1, "def_error")
            acc.violation(core.Violation(PROP, "missing_definition_error", f0, "expected {} at definition".format(def_err),
                                         spec={"spec": spec}, script=src))
            return
        for cls in "BCD":
            groups, _ = diamond_groups(spec, cls)
            names = sorted({n for g in groups for n in g})
            for truth in fam.truth_tables(names):
                dnf = (not groups) or any(all(truth[n] for n in g) for g in groups)

                def go():
                    ns["T"].clear()
                    ns["T"].update(truth)
                    del ns["LOG"][:]
                    obj = ns[cls]()
                    try:
                        r = obj.f(7)
                        if spec["is_async"]:
                            r = core.run_coro(r)
                        return ("ret", r)
                    except icontract.ViolationError as e:
                        return ("viol", str(e).splitlines()[0] if str(e) else "")
                    except BaseException as e:
                        return ("exc", type(e).__name__)
                import icontract
                outcome = core.fresh_ctx_run(go)
                log = list(ns["LOG"])
                acc.case((key0, cls, tuple(sorted(truth.items()))), bool(names), len(log), (dnf, outcome[0]))
                body = any(ev[0] == "body" for ev in log)
                sym = None
                if dnf and (not body or outcome != ("ret", 7)):
                    sym = "body_not_entered_although_pre_holds"
                elif not dnf and body:
                    sym = "body_entered_despite_violation"
                elif not dnf and outcome[0] != "viol":
                    sym = "wrong_error"
                if sym:
                    f = dict(f0); f["cls"] = cls
                    acc.violation(core.Violation(PROP, sym, f, "class {} groups={} truth={} dnf={} outcome={} log={}".format(
                        cls, groups, truth, dnf, outcome, log), spec={"spec": spec, "cls": cls, "truth": truth}, script=src))
        acc.sample({"spec": spec}, cap=2)
    finally:
        core.unload_source(ns)


DEF_KINDS = ["func", "afunc", "method", "static", "classm", "kwonly", "init_then_method"]


def defaults_specs(tier):
    out = []
    for kind in DEF_KINDS:
        for cap in (1, 2):
            for holder in ("list", "dict"):
                for hist in itertools.product("dp", repeat=3 if tier == "quick" else 4):   # d = use the default, p = pass an own object
                    out.append({"fam": "defaults", "kind": kind, "cap": cap, "holder": holder, "hist": "".join(hist)})
    return out


def render_defaults(spec):
    kind, cap, holder = spec["kind"], spec["cap"], spec["holder"]
    empty = "[]" if holder == "list" else "{}"
    add = "acc.append(x)" if holder == "list" else "acc[len(acc)] = x"
    cond = "lambda acc: (LOG.append(('pre', id(acc))) or True) and len(acc) < {}".format(cap)
    L = ["import icontract", "LOG = []", "DEFAULT = {}".format(empty), ""]
    body = ["LOG.append(('body', id(acc)))", add, "return len(acc)"]
    if kind in ("func", "afunc", "kwonly"):
        sig = "x, acc=DEFAULT" if kind != "kwonly" else "x, *, acc=DEFAULT"
        L += ["@icontract.require({})".format(cond), "{}def f({}):".format("async " if kind == "afunc" else "", sig)]
        L += ["    " + b for b in body]
        L += ["call = f"]
    else:
        L += ["class K:"]
        dec = {"method": None, "static": "@staticmethod", "classm": "@classmethod", "init_then_method": None}[kind]
        first = {"method": "self, ", "static": "", "classm": "cls, ", "init_then_method": "self, "}[kind]
        if kind == "init_then_method":
            L += ["    def __init__(self, acc=DEFAULT):", "        self.acc = acc"]
        if dec:
            L.append("    " + dec)
        L += ["    @icontract.require({})".format(cond), "    def f({}x, acc=DEFAULT):".format(first)]
        L += ["        " + b for b in body]
        L += ["call = K().f" if kind != "classm" and kind != "static" else "call = K.f"]
    return "\n".join(L) + "\n"


def check_defaults(spec, acc):
    import icontract
    src = render_defaults(spec)
    key0 = json.dumps(spec, sort_keys=True)
    ns = core.load_source(src, "c01m")
    try:
        default = ns["DEFAULT"]
        model_default = 0
        f0 = {"fam": "defaults", "kind": spec["kind"], "cap": spec["cap"], "holder": spec["holder"]}
        for i, h in enumerate(spec["hist"]):
            own = [] if spec["holder"] == "list" else {}
            target = default if h == "d" else own
            size = model_default if h == "d" else 0
            holds = size < spec["cap"]

            def go():
                del ns["LOG"][:]
                try:
                    r = ns["call"](i) if h == "d" else ns["call"](i, acc=own)
                    if spec["kind"] == "afunc":
                        r = core.run_coro(r)
                    return ("ret", r)
                except icontract.ViolationError:
                    return ("viol",)
                except BaseException as e:
                    return ("exc", type(e).__name__)
            outcome = core.fresh_ctx_run(go)
            log = list(ns["LOG"])
            acc.case((key0, i), True, len(log), (holds, outcome[0]))
            body = any(ev[0] == "body" for ev in log)
            sym = None
            if holds and (not body or outcome != ("ret", size + 1)):
                sym = "body_not_entered_although_pre_holds"
            elif not holds and body:
                sym = "body_entered_despite_violation"
            elif not holds and outcome[0] != "viol":
                sym = "wrong_error"
            elif any(ev[1] != id(target) for ev in log):
                sym = "condition_saw_other_object"
            if sym:
                f = dict(f0); f["step"] = i; f["hist"] = spec["hist"]
                acc.violation(core.Violation(
                    PROP, sym, f, "history {} step {} ({}): the argument holds {} element(s), capacity {}: the precondition {} but "
                    "outcome={} log={} (id(default)={}, id(target)={})".format(
                        spec["hist"], i, "default" if h == "d" else "own object", size, spec["cap"],
                        "holds" if holds else "is violated", outcome, log, id(default), id(target)),
                    spec={"spec": spec}, script=src))
                return
            if holds and h == "d":
                model_default += 1
        acc.sample({"spec": spec}, cap=2)
    finally:
        core.unload_source(ns)


OVERRULED_SRC = '''\
import icontract
T = {}
LOG = []
class Boom(Exception): pass
class BoomBase(BaseException): pass
def c(name):
    LOG.append(("pre", name))
    return T.get(name, True)
def raising_factory(x):
    LOG.append(("errfac", "a"))
    raise Boom("the error factory itself fails")
class RaisingError(Exception):
    def __init__(self, *args):
        raise Boom("the error class can not be instantiated")
class Arg:
    def __repr__(self):
        raise BoomBase("repr fails")
class A1(icontract.DBC):
    @icontract.require(lambda self, x: c("a"), error=raising_factory)
    {adef} f(self, x):
        return 0
class B1(A1):
    @icontract.require(lambda self, x: c("b"))
    {adef} f(self, x):
        LOG.append(("body",))
        return 1
class A2(icontract.DBC):
    @icontract.require(lambda self, x: c("a"), error=RaisingError)
    {adef} f(self, x):
        return 0
class B2(A2):
    @icontract.require(lambda self, x: c("b"))
    {adef} f(self, x):
        LOG.append(("body",))
        return 1
# one decorator OBJECT (hence one contract object) re-used on the base method and on the override; the base stacks another one
def cond_a(self, x):
    return c("a")
def cond_e(self, x):
    return c("e")
reused = icontract.require(cond_a)
class A4(icontract.DBC):
    @icontract.require(cond_e)
    @reused
    {adef} f(self, x):
        return 0
class B4(A4):
    @reused
    {adef} f(self, x):
        LOG.append(("body",))
        return 1
class A3(icontract.DBC):
    @icontract.require(lambda self, x: c("a"))
    {adef} f(self, x):
        return 0
class B3(A3):
    @icontract.require(lambda self, x: c("b"), error=ValueError)
    {adef} f(self, x):
        LOG.append(("body",))
        return 1
'''


def check_overruled(acc):
    """The error of a precondition group that is overruled by a later group is of no concern: whatever creating it would do
    (a raising factory, an error class that can not be instantiated, an argument whose repr fails while the message is built),
    the call is accepted iff one group holds."""
    import icontract
    for is_async in (False, True):
        ns = core.load_source(OVERRULED_SRC.replace("{adef}", "async def" if is_async else "def"), "c01o")
        try:
            for cls, arg_kind in (("B1", "plain"), ("B2", "plain"), ("B3", "repr_fails")):
                for a, b in ((True, True), (False, True), (True, False), (False, False)):
                    def go():
                        ns["T"].clear()
                        ns["T"].update({"a": a, "b": b})
                        del ns["LOG"][:]
                        x = ns["Arg"]() if arg_kind == "repr_fails" else 5
                        try:
                            r = ns[cls]().f(x)
                            if is_async:
                                r = core.run_coro(r)
                            return ("ret", r)
                        except BaseException as e:  # noqa
                            return ("exc", type(e).__name__)
                    out = core.fresh_ctx_run(go)
                    log = list(ns["LOG"])
                    holds = a or b
                    acc.case(("overruled", is_async, cls, a, b), True, len(log), out)
                    sym = None
                    if holds and out != ("ret", 1):
                        sym = "body_not_entered_although_pre_holds"
                    elif not holds and (out[0] != "exc" or ("body",) in log):
                        sym = "body_entered_despite_violation"
                    if sym:
                        acc.violation(core.Violation(
                            PROP, sym, {"fam": "overruled_group", "cls": cls, "is_async": is_async, "a": a, "b": b},
                            "{}.f: base group {} / own group {}: the effective precondition {} but the call gave {} (log {})".format(
                                cls, a, b, "holds" if holds else "is violated", out, log), spec={"spec": {"fam": "overruled"}}, script=OVERRULED_SRC))
            # B4: groups [a, e] (base) and [a] (own, the very same contract object): accepted iff a
            for a, e in ((True, True), (True, False), (False, True), (False, False)):
                def go4():
                    ns["T"].clear()
                    ns["T"].update({"a": a, "e": e})
                    del ns["LOG"][:]
                    try:
                        r = ns["B4"]().f(5)
                        if is_async:
                            r = core.run_coro(r)
                        return ("ret", r)
                    except BaseException as ex:  # noqa
                        return ("exc", type(ex).__name__)
                out = core.fresh_ctx_run(go4)
                log = list(ns["LOG"])
                acc.case(("reused_decorator", is_async, a, e), True, len(log), out)
                sym = None
                if a and out != ("ret", 1):
                    sym = "body_not_entered_although_pre_holds"
                elif not a and (out != ("exc", "ViolationError") or ("body",) in log):
                    sym = "body_entered_despite_violation"
                if sym:
                    acc.violation(core.Violation(
                        PROP, sym, {"fam": "reused_decorator_object", "cls": "B4", "is_async": is_async, "a": a, "b": e},
                        "B4.f re-uses the decorator object of the base's first precondition (base group [a, e], own group [a]; a={}, e={}): "
                        "the effective precondition {} but the call gave {} (log {})".format(a, e, "holds" if a else "is violated", out, log),
                        spec={"spec": {"fam": "overruled"}}, script=OVERRULED_SRC))
            acc.sample({"fam": "overruled_group", "async": is_async}, cap=1)
        finally:
            core.unload_source(ns)


def check_any(spec, acc):
    if spec.get("fam") == "bases":
        check_bases(acc)
        return
    if spec.get("fam") == "overruled":
        check_overruled(acc)
        return
    if spec.get("fam") == "diamond":
        check_diamond(spec, acc)
    elif spec.get("fam") == "defaults":
        check_defaults(spec, acc)
    else:
        check_spec(spec, acc)


def check_bases(acc):
    """Several bases: the groups of every base with preconditions are alternatives; a base which provides the function
    without any precondition (postconditions only, snapshots only, no contract at all) makes the override accept every call."""
    from . import c02
    classes = []
    for i, order in enumerate(c02.BASE_ORDERS):
        classes.append("class D{}({}):\n    {{adef}} f(self):\n        LOG.append(('body', 'D'))\n        return 1\n".format(i, ", ".join(order)))
    for is_async in (False, True):
        src = c02.BASES_SRC.replace("{classes}", "".join(classes)).replace("{adef}", "async def" if is_async else "def")
        ns = core.load_source(src, "c01b")
        try:
            for i, order in enumerate(c02.BASE_ORDERS):
                cls = "D{}".format(i)
                has_pre = [b for b in order if b == "A"]
                accepts_all = any(b != "A" for b in order)
                for pa in (True, False):
                    def go():
                        ns["T"].clear()
                        obj = ns[cls]()
                        ns["T"]["pa"] = pa
                        del ns["LOG"][:]
                        try:
                            r = obj.f()
                            if is_async:
                                r = ns["RUN"](r)
                            return "ret"
                        except BaseException as e:  # noqa
                            return type(e).__name__
                    out = core.fresh_ctx_run(go)
                    log = list(ns["LOG"])
                    entered = ("body", "D") in log
                    holds = pa or accepts_all or not has_pre
                    acc.case(("bases", is_async, cls, pa), True, len(log), out)
                    if entered != holds or (out == "ret") != holds or (not holds and out != "E_pa"):
                        acc.violation(core.Violation(
                            PROP, "body_not_entered_although_pre_holds" if holds else "body_entered_despite_violation",
                            {"family": "several_bases", "bases": ",".join(order), "is_async": is_async, "pa": pa},
                            "class {}({}) overriding f: the precondition of A is {}, {}: the effective precondition {} but the call gave {} "
                            "(body entered: {}); log {}".format(cls, ", ".join(order), pa, "another base provides f without preconditions" if accepts_all else
                                                                "no other base provides f", "holds" if holds else "is violated", out, entered, log),
                            spec={"spec": {"fam": "bases"}}, script=src))
            acc.sample({"family": "several_bases", "async": is_async}, cap=1)
        finally:
            core.unload_source(ns)


def work(chunk):
    acc = core.Acc()
    for spec in chunk:
        check_any(spec, acc)
    return acc.result()


def run(tier, t0):
    sp = core.rotate(specs(tier) + diamond_specs(tier) + defaults_specs(tier)) + [{"fam": "overruled"}, {"fam": "bases"}]
    tot = core.merge(core.pmap(work, sp))
    return core.finish(
        PROP, tier, tot, t0,
        rule="every program of family F (callable kind x sync/async x plain/DBC x inherited groups x own stack of "
             "0..n preconditions x +-post/snapshot/invariant x condition style x error form) x every truth assignment "
             "x every call shape; plus every diamond A<-B,C<-D with each class (not defining | defining bare | defining with a "
             "precondition) x sync/async x every truth assignment on B, C and D instances (reference: OR over the groups collected "
             "along the bases); plus every call history of length 3 (thorough: 4) over {use the mutable default, pass an own object} for "
             "callables whose body fills the default and whose precondition bounds its size (condition must see the body's object); "
             "a case is one (program, assignment, shape) or one history step; non-trivial = at least one precondition in effect",
        assumptions=["conditions are side-effect free apart from logging", "CPython 3.12 /venv"],
        bounds={"programs": len(sp), "max_own_preconditions": 3,
                "max_inherited_groups": 1 if tier == "quick" else 2},
    )


def replay(path):
    data = json.load(open(path))
    acc = core.Acc()
    if data["spec"]["spec"].get("fam"):
        check_any(data["spec"]["spec"], acc)
    else:
        check_spec(data["spec"]["spec"], acc)
    for v in acc.violations:
        print("VIOLATION property={} replay={}".format(PROP, path))
        print(" ", v.symptom, v.detail[:400])
    return 1 if acc.violations else 0
