"""C01 - preconditions gate every call (body runs iff the effective precondition holds)."""
import itertools
import json

from .. import core, fam

PROP = "C01"


def specs(tier):
    out = []
    max_own = 3
    for kind in fam.KINDS:
        for is_async in ([False, True] if kind in fam.ASYNCABLE else [False]):
            for dbc in ([False, True] if kind != "func" else [False]):
                base_opts = [None]
                if dbc:
                    # inherited groups: one or two base levels with 1-2 conditions each; or a gap
                    base_opts = [None, [1], [2]] if tier == "quick" else [None, [1], [2], [1, 1], [1, 0], [2, 1], [0, 1]]
                for base in base_opts:
                    for own in range(0, max_own + 1):
                        for post, snap in ((0, 0), (1, 0), (1, 1)):
                            for inv in (0, 1):
                                if inv and kind == "func":
                                    continue
                                levels = []
                                if base:
                                    for n in base:
                                        levels.append({"pre": n, "defines": True, "post": 0, "snap": 0, "inv": 0})
                                levels.append({"pre": own, "post": post, "snap": snap, "inv": inv, "defines": True})
                                # alternate style/err deterministically so that every combination of
                                # (style, err) meets every kind
                                for foreign in (None, "top", "mid", "bottom"):
                                    if foreign and (inv or (post, snap) != (1, 0)):
                                        continue  # foreign functools.wraps decorators: on the plain +post shape only
                                    idx = len(out)
                                    style = ("def", "lambda")[idx % 2]
                                    err = ("default", "cls", "fac", "inst")[(idx // 2) % 4]
                                    out.append({"kind": kind, "is_async": is_async, "dbc": dbc, "levels": levels,
                                                "style": style, "err": err, "foreign": foreign})
    return out


def features(spec, shape):
    return {
        "kind": spec["kind"], "is_async": spec["is_async"], "dbc": spec["dbc"],
        "pre": "/".join(str(lv["pre"]) for lv in spec["levels"]),
        "post": "/".join(str(lv["post"]) for lv in spec["levels"]),
        "snap": "/".join(str(lv["snap"]) for lv in spec["levels"]),
        "inv": "/".join(str(lv["inv"]) for lv in spec["levels"]),
        "style": spec["style"], "err": spec["err"], "shape": shape, "foreign": spec.get("foreign"),
    }


def check_spec(spec, acc, shapes=fam.CALL_SHAPES):
    spec = fam.norm(spec)
    def_error, groups, posts, snaps, invs, target = fam.effective(spec)
    prog = fam.Program(spec)
    try:
        f0 = features(spec, "-")
        if def_error is not None:
            acc.case(("def", json.dumps(spec, sort_keys=True)), nontrivial=True, events=1, outcome="def_error")
            if prog.def_exc is None or type(prog.def_exc).__name__ != def_error[0]:
                acc.violation(core.Violation(PROP, "missing_definition_error", f0,
                                             "expected {} at definition, got {!r}".format(def_error[0], prog.def_exc),
                                             spec={"spec": spec}, script=fam.render(spec)))
            return
        if prog.def_exc is not None:
            acc.case(("def", json.dumps(spec, sort_keys=True)), nontrivial=True, events=1, outcome="def_error")
            acc.violation(core.Violation(PROP, "unexpected_definition_error", f0,
                                         "definition raised {!r}".format(prog.def_exc),
                                         spec={"spec": spec}, script=fam.render(spec)))
            return
        pre_names = [n for g in groups for n in g]
        other = list(posts)
        names = pre_names + (other if len(pre_names) + len(other) <= 5 else [])
        key0 = json.dumps(spec, sort_keys=True)
        for truth in fam.truth_tables(names):
            dnf = (not groups) or any(all(truth[n] for n in g) for g in groups)
            falsy = {n for n in pre_names if not truth[n]}
            for shape in shapes:
                if spec["kind"] in ("pget", "pset", "pdel") and shape != "pos":
                    continue
                log, outcome = prog.call(truth, "ret_obj", "none", shape)
                acc.case((key0, tuple(sorted(truth.items())), shape), nontrivial=bool(pre_names),
                         events=len(log), outcome=(dnf, outcome[0]))
                body = any(ev[0] == "body" for ev in log)
                cap = any(ev[0] == "cap" for ev in log)
                sym = None
                if dnf and not body:
                    sym = "body_not_entered_although_pre_holds"
                elif not dnf and body:
                    sym = "body_entered_despite_violation"
                elif not dnf and cap:
                    sym = "capture_despite_violation"
                elif not dnf and not (outcome[0] == "exc" and outcome[1] in falsy):
                    sym = "wrong_error"
                elif dnf and outcome[0] == "exc" and outcome[1] in pre_names:
                    sym = "precondition_error_although_pre_holds"
                elif any(ev[0] == "pre" and ev[2] is not True for ev in log):
                    sym = "condition_saw_other_object"
                if sym:
                    acc.violation(core.Violation(
                        PROP, sym, features(spec, shape),
                        "truth={} dnf={} outcome={} log={}".format(truth, dnf, outcome, log),
                        spec={"spec": spec, "truth": truth, "shape": shape},
                        script=fam.replay_script(spec, truth, "ret_obj", "none", shape)))
        acc.sample({"spec": spec, "truth_names": names})
    finally:
        prog.close()


def work(chunk):
    acc = core.Acc()
    for spec in chunk:
        check_spec(spec, acc)
    return acc.result()


def run(tier, t0):
    sp = core.rotate(specs(tier))
    tot = core.merge(core.pmap(work, sp))
    return core.finish(
        PROP, tier, tot, t0,
        rule="every program of family F (callable kind x sync/async x plain/DBC x inherited groups x own stack of "
             "0..n preconditions x +-post/snapshot/invariant x condition style x error form) x every truth assignment "
             "x every call shape; a case is one (program, assignment, shape); non-trivial = at least one precondition in effect",
        assumptions=["conditions are side-effect free apart from logging", "CPython 3.12 /venv"],
        bounds={"programs": len(sp), "max_own_preconditions": 3,
                "max_inherited_groups": 1 if tier == "quick" else 2},
    )


def replay(path):
    data = json.load(open(path))
    acc = core.Acc()
    check_spec(data["spec"]["spec"], acc)
    for v in acc.violations:
        print("VIOLATION property={} replay={}".format(PROP, path))
        print(" ", v.symptom, v.detail[:400])
    return 1 if acc.violations else 0
