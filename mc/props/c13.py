"""C13 - async callables get the same contract semantics as sync ones.

(a) twins: every family-F program whose kind can be async is rendered twice (def / async def, identical otherwise)
and executed for all truth assignments / body outcomes; the two event logs and outcomes must be equal.
(b) placement: condition/capture kinds (plain, coroutine function, lambda returning a coroutine / a Future / a custom
awaitable) x role (pre, post, capture, invariant) x callable (sync, async) x awaited value."""
import itertools
import json

from .. import core, fam, sched

PROP = "C13"


def twin_specs(tier):
    out = []
    own_opts = [(0, 1, 0), (1, 0, 0), (1, 1, 1), (2, 2, 1), (2, 0, 0), (0, 2, 2)]
    if tier == "thorough":
        own_opts += [(3, 0, 0), (0, 3, 0), (3, 3, 2), (1, 2, 1), (2, 1, 1)]
    bases = [None, [(1, 1, 1, 0)], [(2, 0, 0, 1)]]
    if tier == "thorough":
        bases += [[(1, 1, 0, 1), (1, 1, 1, 0)], [(1, 0, 0, 0), None]]
    for kind in sorted(fam.ASYNCABLE):
        for dbc in ([False, True] if kind != "func" else [False]):
            for base in (bases if dbc else [None]):
                for (pre, post, snap) in own_opts:
                    for inv in ((0, 1) if kind not in ("func",) else (0,)):
                        levels = []
                        for b in base or []:
                            if b is None:
                                levels.append({"defines": False})
                            else:
                                levels.append({"pre": b[0], "post": b[1], "snap": b[2], "inv": b[3], "defines": True})
                        levels.append({"pre": pre, "post": post, "snap": snap, "inv": inv, "defines": True})
                        if inv and (pre, post, snap) in ((1, 1, 1), (0, 1, 0)):
                            # invariants with mixed check_on: only the CALL-selected ones may be evaluated around a call
                            for inv_on in ("SC", "CS", "AS", "SA"):
                                lv2 = [dict(l) for l in levels]
                                lv2[-1].update({"inv": 2, "inv_on": inv_on})
                                out.append({"kind": kind, "dbc": dbc, "levels": lv2, "style": "def", "err": "cls",
                                            "layout": "grouped", "foreign": None, "cap_alias": False})
                        for foreign in (None, "top", "bottom"):
                            if foreign and (inv or tier == "quick" and base):
                                continue
                            idx = len(out)
                            out.append({"kind": kind, "dbc": dbc, "levels": levels,
                                        "style": ("def", "lambda")[idx % 2],
                                        "err": ("default", "cls", "fac", "inst")[(idx // 2) % 4],
                                        "layout": ("grouped", "interleaved")[(idx // 8) % 2],
                                        "foreign": foreign, "cap_alias": bool((idx // 16) % 2)})
    return out


def check_twin(spec, acc):
    s_sync = fam.norm(dict(spec, is_async=False))
    variants = [("async", fam.norm(dict(spec, is_async=True)))]
    if spec.get("style", "def") == "def":
        # ... and the async rendering whose conditions and captures are coroutine functions themselves
        variants.append(("async+coroutine conditions", fam.norm(dict(spec, is_async=True, style="adef"))))
        # ... and the one in which coroutine-function and plain conditions alternate within every stack
        variants.append(("async+mixed conditions", fam.norm(dict(spec, is_async=True, style="amix"))))
    key0 = json.dumps(spec, sort_keys=True)
    p1 = fam.Program(s_sync)
    progs = [(tag, sa, fam.Program(sa)) for tag, sa in variants]
    try:
        d1 = type(p1.def_exc).__name__ if p1.def_exc else None
        ds = [type(p.def_exc).__name__ if p.def_exc else None for _, _, p in progs]
        if d1 or any(ds):
            acc.case(("def", key0), True, 1, (d1, tuple(ds)))
            for (tag, sa, p2), d2 in zip(progs, ds):
                if d1 != d2:
                    acc.violation(core.Violation(PROP, "definition_differs", fam.feat(sa), "sync: {!r} {}: {!r}".format(p1.def_exc, tag, p2.def_exc),
                                                 spec={"spec": spec}))
            return
        names = fam.relevant_names(s_sync)
        for truth in fam.limited_truths(names, max_full=5, max_falsy=2):
            for bm, mut in (("ret_obj", "none"), ("ret_none", "append"), ("raise_exc", "none"), ("raise_base", "append"), ("ret_zero", "rebind"), ("recurse", "none")):
                l1, o1 = p1.call(truth, bm, mut, "pos")
                for tag, sa, p2 in progs:
                    l2, o2 = p2.call(truth, bm, mut, "pos")
                    acc.case((key0, tag, tuple(sorted(truth.items())), bm, mut), bool(names), len(l1) + len(l2), (o1, o2 == o1))
                    if l1 == l2 and o1 == o2 and o2[0] == "exc":
                        # the failing call made twice in ONE context: the async rendering must observe the same both times
                        (la, oa), (lb, ob) = p2.call_twice(truth, bm, mut, "pos")
                        acc.bump("repeated_in_same_context")
                        if (la, oa) != (l2, o2) or (lb, ob) != (l2, o2):
                            which, lw, ow = ("second", lb, ob) if (lb, ob) != (l2, o2) else ("first", la, oa)
                            acc.violation(core.Violation(
                                PROP, "repeated_call_differs", fam.feat(sa, "pos", bm, mut),
                                "{}: the call ends with {}; made twice in one context the {} call was observed as {} -> {} instead of {}".format(
                                    tag, o2, which, lw, ow, l2),
                                spec={"spec": spec, "truth": truth, "body_mode": bm, "mut": mut},
                                script=fam.replay_script(sa, truth, bm, mut, "pos")))
                    if l1 != l2 or o1 != o2:
                        d = fam.first_diff(l1, l2)
                        acc.violation(core.Violation(
                            PROP, "twin_logs_differ" if l1 != l2 else "twin_outcomes_differ", fam.feat(sa, "pos", bm, mut),
                            "falsy={} first difference {}\n sync : {} -> {}\n {}: {} -> {}".format(
                                [k for k, v in truth.items() if not v], d, l1, o1, tag, l2, o2),
                            spec={"spec": spec, "truth": truth, "body_mode": bm, "mut": mut},
                            script=fam.replay_script(sa, truth, bm, mut, "pos")))
        acc.sample({"twin": spec}, cap=2)
    finally:
        p1.close()
        for _, _, p2 in progs:
            p2.close()


# ---------------------------------------------------------------------------------------------
# placement family

P_SRC = '''\
import asyncio
import icontract
LOG = []
V = {"v": True}
LOOP = {"l": None}
class Tick:
    def __await__(self):
        yield None
class Aw:
    def __init__(self, v): self.v = v
    def __await__(self):
        yield None
        return self.v
async def acheck(*a):
    LOG.append("acheck")
    await Tick()
    return V["v"]
def fut(*a):
    f = LOOP["l"].create_future()
    f.set_result(V["v"])
    return f
class Viol(Exception): pass
def mkviol():
    return Viol("violated")
'''

COND_KINDS = ["plain", "corofn", "lambda_coro", "lambda_future", "lambda_awaitable"]


def cond_src(kind, params):
    """(definition text, expression used as the condition argument)"""
    if kind == "plain":
        return "def cnd({}):\n    LOG.append('plain')\n    return V['v']\n".format(params), "cnd"
    if kind == "corofn":
        return "async def cnd({}):\n    LOG.append('corofn')\n    await Tick()\n    return V['v']\n".format(params), "cnd"
    if kind == "lambda_coro":
        return "", "lambda {0}: acheck({1})".format(params, params.split(",")[0])
    if kind == "lambda_future":
        return "", "lambda {0}: fut({1})".format(params, params.split(",")[0])
    if kind == "lambda_awaitable":
        return "", "lambda {0}: Aw(V['v'])".format(params)
    raise ValueError(kind)


def placement_cases():
    out = []
    for role in ("pre", "post", "cap", "inv"):
        for ck in COND_KINDS:
            for is_async in (False, True):
                for method in ((False, True) if role != "inv" else (True,)):
                    out.append({"role": role, "cond": ck, "is_async": is_async, "method": method})
    return out


def render_placement(case):
    role, ck, is_async, method = case["role"], case["cond"], case["is_async"], case["method"]
    adef = "async def" if is_async else "def"
    params = {"pre": "x", "post": "result", "cap": "x", "inv": "self"}[role]
    d, expr = cond_src(ck, params)
    w = [P_SRC, d]
    if role == "pre":
        decos = ["@icontract.require({}, error=mkviol)".format(expr)]
    elif role == "post":
        decos = ["@icontract.ensure({}, error=mkviol)".format(expr)]
    elif role == "cap":
        decos = ["@icontract.snapshot({}, name='s')".format(expr),
                 "@icontract.ensure(lambda OLD: (LOG.append(('old', OLD.s)) or True) and OLD.s is True, error=mkviol)"]
    body = "    LOG.append('body')\n" + ("    await Tick()\n" if is_async else "") + "    return 5\n"
    if role == "inv":
        w.append("@icontract.invariant({}, error=mkviol)\nclass K:\n    def __init__(self):\n        self.v = 1\n    {} f(self, x):\n    {}".format(
            expr, adef, body.replace("\n    ", "\n        ")))
    elif method:
        w.append("class K:\n" + "".join("    " + ln + "\n" for ln in decos) + "    {} f(self, x):\n    {}".format(adef, body.replace("\n    ", "\n        ")))
    else:
        w.append("".join(ln + "\n" for ln in decos) + "{} f(x):\n{}".format(adef, body))
    return "".join(w)


def run_placement(case, acc):
    src = render_placement(case)
    role, ck, is_async = case["role"], case["cond"], case["is_async"]
    feats = {"role": role, "cond": ck, "is_async": is_async, "method": case["method"]}
    key = json.dumps(case, sort_keys=True)
    loop = sched.VLoop()
    try:
        def define():
            ns = core.load_source(src, "c13p", {})
            return ns
        def_exc = None
        ns = None
        try:
            # V must be truthy while the class is being defined/instantiated
            ns = core.fresh_ctx_run(define)
            ns["LOOP"]["l"] = loop
        except Exception as e:
            def_exc = e
        if def_exc is not None:
            acc.case(("def", key), True, 1, "def:" + type(def_exc).__name__)
            # a coroutine-function invariant is rejected at definition (C19); everything else must be definable
            if not (role == "inv" and ck == "corofn" and isinstance(def_exc, ValueError)):
                acc.violation(core.Violation(PROP, "placement_definition_failed", feats, repr(def_exc), spec={"placement": case}, script=src))
            return
        for v in (True, False):
            def go():
                del ns["LOG"][:]
                try:
                    ns["V"]["v"] = True
                    obj = ns["K"]() if "K" in ns else None
                    ns["V"]["v"] = v
                    del ns["LOG"][:]
                    r = obj.f(1) if obj is not None else ns["f"](1)
                    if is_async:
                        r = core.run_coro(r)
                    return ("ret", r), list(ns["LOG"])
                except Exception as e:
                    return ("exc", type(e).__name__, str(e)[:120]), list(ns["LOG"])
            outcome, log = core.fresh_ctx_run(go)
            acc.case((key, v), True, len(log), outcome[:2])
            awaitable = ck != "plain"
            bad = None
            passed = outcome[0] == "ret"
            violated = outcome[0] == "exc" and outcome[1] == "Viol"
            rejected = outcome[0] == "exc" and outcome[1] == "ValueError"
            if role == "cap" and ck in ("lambda_future", "lambda_awaitable"):
                continue  # a capture may legitimately *capture* a Future / awaitable object; the statement is silent
            if ck == "plain" or (is_async and role != "inv"):
                # judged by the (awaited) value
                if v and not passed:
                    bad = ("satisfied_contract_failed", "awaited value True but outcome {}".format(outcome))
                elif not v and not violated:
                    bad = ("awaitable_taken_as_truthy" if passed else "wrong_outcome",
                           "awaited value False: expected the contract's error, got {}".format(outcome))
                elif role == "cap" and v and ("old", True) not in log:
                    bad = ("capture_not_awaited", "OLD.s is not the awaited value; log={}".format(log))
            elif not is_async and ck in ("corofn", "lambda_coro"):
                if not rejected:
                    bad = ("coroutine_on_sync_not_rejected", "sync callable with a coroutine {}: expected ValueError, got {}".format(role, outcome))
            elif role == "inv" and ck in ("corofn", "lambda_coro"):
                # invariants can not be awaited by a sync wrapper: either rejected or judged by the awaited value, never truthy
                if not v and passed:
                    bad = ("awaitable_taken_as_truthy", "invariant returning a coroutine with awaited value False passed: {}".format(outcome))
            else:
                continue  # Future / custom awaitable on a sync callable, or as an invariant: the statement is silent
            if bad:
                acc.violation(core.Violation(PROP, bad[0], feats, "value={} ".format(v) + bad[1] + " log={}".format(log),
                                             spec={"placement": case, "value": v}, script=src))
        acc.sample({"placement": case}, cap=2)
    finally:
        loop.close()
        if ns is not None:
            core.unload_source(ns)


def run_mixed_histories(acc):
    """A condition that gives a plain value on some calls and a coroutine on others (``x > 0 and check(x)`` with an async check):
    every history of two calls x (plain | coroutine) x (truthy | falsy) in one context; each call is judged by its own value."""
    import itertools
    for role in ("pre", "post"):
        params = {"pre": "x", "post": "result"}[role]
        deco = {"pre": "require", "post": "ensure"}[role]
        src = P_SRC + "V['plain'] = True\n@icontract.{}(lambda {}: (V['v'] if V['plain'] else acheck({})), error=mkviol)\nasync def f(x):\n    LOG.append('body')\n    return 5\n".format(
            deco, params, params)
        ns = core.load_source(src, "c13m")
        try:
            for hist in itertools.product(itertools.product((True, False), (True, False)), repeat=2):
                def go():
                    outs = []
                    for plain, v in hist:
                        ns["V"]["plain"], ns["V"]["v"] = plain, v
                        del ns["LOG"][:]
                        try:
                            outs.append(("ret", core.run_coro(ns["f"](1)), tuple(ns["LOG"])))
                        except BaseException as e:  # noqa
                            outs.append(("exc", type(e).__name__, tuple(ns["LOG"])))
                    return outs
                outs = core.fresh_ctx_run(go)
                acc.case(("mixed", role, hist), True, sum(len(o[2]) for o in outs), tuple(o[:2] for o in outs))
                for i, ((plain, v), o) in enumerate(zip(hist, outs)):
                    want = ("ret", 5) if v else ("exc", "Viol")
                    if o[:2] != want:
                        acc.violation(core.Violation(
                            PROP, "awaitable_taken_as_truthy" if o[0] == "ret" else "wrong_outcome",
                            {"role": role, "cond": "lambda_mixed", "is_async": True, "step": i},
                            "history {} of (gives a plain value?, value): call #{} expected {} got {} (log {})".format(hist, i, want, o[:2], o[2]),
                            spec={"mixed": role}, script=src))
                        break
            acc.sample({"mixed_histories": role}, cap=2)
        finally:
            core.unload_source(ns)


def work(chunk):
    import warnings
    warnings.simplefilter("ignore", RuntimeWarning)  # "coroutine ... was never awaited" (GC-timed, never compared)
    acc = core.Acc()
    for item in chunk:
        if item == "mixed":
            run_mixed_histories(acc)
        elif "role" in item:
            run_placement(item, acc)
        else:
            check_twin(item, acc)
    return acc.result()


def run(tier, t0):
    tw = twin_specs(tier)
    pl = placement_cases()
    tot = core.merge(core.pmap(work, core.rotate(tw) + pl + ["mixed"]))
    return core.finish(
        PROP, tier, tot, t0,
        rule="(a) {} family-F programs of the async-capable kinds (function, method, static/class method, __call__; plain and DBC "
             "chains; own/inherited pre/post/snapshot/invariant stacks; layouts; foreign decorators; error forms) rendered as "
             "def and async def twins x all truth assignments (<=5 conditions, else <=2 falsy) x 6 body outcome/mutation modes (incl. a body that calls the same callable again): "
             "event logs and outcomes of the twins must be equal (no reference involved); (b) {} placement cases: condition / "
             "capture kind (plain, coroutine function, lambda returning coroutine / done Future / custom awaitable) x role x "
             "sync|async x function|method x awaited value; plus every history of two calls, in one context, of an async function whose "
             "pre-/postcondition gives a plain value on some calls and a coroutine on others x truthy/falsy; every violating twin call is also made "
             "twice in one context (identical observations required); non-trivial = at least one condition in effect".format(len(tw), len(pl)),
        assumptions=["Futures / custom awaitables on *sync* callables and as invariants are not judged (statement silent)",
                     "coroutines are driven by hand (send(None) until StopIteration); every suspension simply resumes"],
        bounds={"twin_programs": len(tw), "placement_cases": len(pl)},
    )


def replay(path):
    data = json.load(open(path))["spec"]
    acc = core.Acc()
    if "placement" in data:
        run_placement(data["placement"], acc)
    elif "mixed" in data:
        run_mixed_histories(acc)
    else:
        check_twin(data["spec"], acc)
    for v in acc.violations[:5]:
        print("VIOLATION property={} replay={}".format(PROP, path))
        print(" ", v.symptom, v.detail[:500])
    return 1 if acc.violations else 0
