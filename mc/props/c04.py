"""C04 - inherited contracts combine per Liskov: preconditions OR-ed, postconditions and invariants AND-ed.

Programs: class hierarchies over <=4 DBC classes (chains, gaps, two bases in both orders, diamonds), a member of
every kind with per-class contract placements, constructors with own contracts.  The reference is a structural
recursion over the declaration written from the statement; the member Python's own MRO selects is taken from a
bare twin hierarchy."""
import itertools
import json

from .. import core

PROP = "C04"

SHAPES = {
    # name: list of (class, bases)
    "single": [("A", [])],
    "chain2": [("A", []), ("B", ["A"])],
    "chain3": [("A", []), ("B", ["A"]), ("C", ["B"])],
    "two_bases": [("A", []), ("B", []), ("C", ["A", "B"])],
    "two_bases_rev": [("A", []), ("B", []), ("C", ["B", "A"])],
    "diamond": [("A", []), ("B", ["A"]), ("C", ["A"]), ("D", ["B", "C"])],
    "y_shape": [("A", []), ("B", []), ("C", ["A", "B"]), ("D", ["C"])],
    # two gaps in a row below two bases (C and D never define the member)
    "double_gap": [("A", []), ("B", []), ("C", ["A", "B"]), ("D", ["C"]), ("E", ["D"])],
}
FORCED_GAPS = {"double_gap": (2, 3)}
# member options: None = absent, else (n_pre, n_post)
MOPTS_Q = [None, (0, 0), (1, 0), (0, 1), (1, 1)]
MOPTS_T = [None, (0, 0), (1, 0), (2, 0), (0, 1), (1, 1)]
KINDS = ["method", "static", "classm", "pget", "pset", "pdel"]
NAMES = ["m", "__call__", "register", "mro", "__eq__"]


def specs(tier):
    out = []
    if tier == "quick":
        shapes = ["single", "chain2", "chain3", "two_bases", "two_bases_rev", "diamond", "y_shape", "double_gap"]
        kinds = ["method", "pget", "static", "pset"]
        mopts = MOPTS_Q
    else:
        shapes = list(SHAPES)
        kinds = KINDS
        mopts = MOPTS_T
    for shape in shapes:
        classes = SHAPES[shape]
        for kind in kinds:
            opts = mopts
            if len(classes) == 4 and tier == "quick":
                opts = [None, (0, 0), (1, 0), (1, 1)]
            if kind not in ("method", "pget") and tier == "quick":
                opts = [None, (0, 0), (1, 1)]
            if len(classes) > 4:
                opts = [None, (0, 0), (1, 0), (1, 1)] if kind in ("method", "pget") else [None, (0, 0), (1, 1)]
            for combo in itertools.product(*[[None] if i in FORCED_GAPS.get(shape, ()) else opts for i in range(len(classes))]):
                if combo[0] is None and all(c is None for c in combo):
                    continue
                idx = len(out)
                invs = [(idx >> i) & 1 for i in range(len(classes))] if tier == "thorough" else [1 if i == 0 else 0 for i in range(len(classes))]
                out.append({"shape": shape, "kind": kind, "name": "m", "members": list(combo), "invs": invs, "inits": [None] * len(classes)})
                if kind in ("method", "pget", "static") and shape in ("chain2", "two_bases", "chain3") and sum(1 for c in combo if c and any(c)) >= 2:
                    # the same hierarchy with a foreign functools.wraps decorator on top of the contracts of every member
                    out.append(dict(out[-1], foreign_top=True))
    # an abstract method without contracts in one base: it provides the member with no precondition at all
    for shape, abstract in (("two_bases", "A"), ("two_bases", "B"), ("two_bases_rev", "A"), ("two_bases_rev", "B"), ("chain2", "A"), ("y_shape", "A"), ("y_shape", "B")):
        classes = SHAPES[shape]
        others = [(1, 0), (1, 1), (0, 1)]
        for other in others:
            for leaf in [(0, 0), (1, 0), (1, 1), (0, 1)]:
                members = []
                for cls, bases in classes:
                    if cls == abstract:
                        members.append((0, 0))
                    elif not bases:
                        members.append(other)
                    elif cls == classes[-1][0]:
                        members.append(leaf)
                    else:
                        members.append(None)
                if shape == "chain2":
                    members = [(0, 0), leaf]
                out.append({"shape": shape, "kind": "method", "name": "m", "members": members, "invs": [0] * len(classes), "inits": [None] * len(classes),
                            "abstract": [abstract]})
    # invariants with mixed check_on (ALL + CALL) on the classes of chains and two-base hierarchies
    for shape in ("chain2", "chain3", "two_bases"):
        classes = SHAPES[shape]
        for combo in itertools.product([None, (0, 0), (1, 1)], repeat=len(classes)):
            if combo[0] is None:
                continue
            for invs in itertools.product([0, 1], repeat=len(classes)):
                if not any(invs):
                    continue
                out.append({"shape": shape, "kind": "method", "name": "m", "members": list(combo), "invs": list(invs),
                            "inits": [None] * len(classes), "inv_mode": "AC"})
                # ... and a CALL invariant with a SETATTR-only invariant as the LAST (outermost) one of the class
                out.append({"shape": shape, "kind": "method", "name": "m", "members": list(combo), "invs": list(invs),
                            "inits": [None] * len(classes), "inv_mode": "CS"})
    # special member names (only the meta-class, or object, provides them)
    for name in NAMES[1:]:
        for shape in ("single", "chain2", "two_bases"):
            classes = SHAPES[shape]
            for combo in itertools.product([None, (0, 0), (1, 0), (0, 1), (1, 1)], repeat=len(classes)):
                if all(c is None for c in combo):
                    continue
                out.append({"shape": shape, "kind": "method", "name": name, "members": list(combo),
                            "invs": [0] * len(classes), "inits": [None] * len(classes)})
    # constructors: own contracts on base and/or child, never inherited
    for shape in ("chain2", "chain3", "two_bases"):
        classes = SHAPES[shape]
        for combo in itertools.product([None, (0, 0), (1, 0), (0, 1), (1, 1)], repeat=len(classes)):
            if all(c is None for c in combo):
                continue
            out.append({"shape": shape, "kind": "method", "name": "m", "members": [(1, 1)] + [None] * (len(classes) - 1),
                        "invs": [1] + [0] * (len(classes) - 1), "inits": list(combo)})
    return out


# ---------------------------------------------------------------------------------------------

PRELUDE = '''\
import abc
import functools
import icontract
LOG = []
T = {}
def _truth(n):
    return T.get(n, True)
def fw(fn):
    # a foreign decorator (functools.wraps copies the __dict__ of the checker, i.e. aliases of its contract lists)
    @functools.wraps(fn)
    def w(*a, **k):
        return fn(*a, **k)
    return w
'''


def cnames(cls, opt, prefix=""):
    if opt is None:
        return [], []
    return (["{}p_{}_{}".format(prefix, cls, i) for i in range(opt[0])],
            ["{}q_{}_{}".format(prefix, cls, i) for i in range(opt[1])])


def render(spec):
    kind, name = spec["kind"], spec["name"]
    classes = SHAPES[spec["shape"]]
    w = [PRELUDE]
    A = "self" if kind in ("pget", "pdel") else "x"
    for (cls, bases), mopt, inv, iopt in zip(classes, spec["members"], spec["invs"], spec["inits"]):
        pres, posts = cnames(cls, mopt)
        ipres, iposts = cnames(cls, iopt, "i")
        for n in pres + ipres:
            arg = A if n in pres else "x"
            w.append("class E_{0}(Exception): pass\ndef {0}({1}):\n    LOG.append(('pre', '{0}'))\n    return _truth('{0}')\n".format(n, arg))
        for n in posts + iposts:
            w.append("class E_{0}(Exception): pass\ndef {0}(result):\n    LOG.append(('post', '{0}'))\n    return _truth('{0}')\n".format(n))
        if inv:
            w.append("class E_v_{0}(Exception): pass\ndef v_{0}(self):\n    LOG.append(('inv', 'v_{0}'))\n    return _truth('v_{0}')\n".format(cls))
            if spec.get("inv_mode") == "AC":
                # two invariants on the class: one checked on ALL events, one on CALL only
                w.append("class E_w_{0}(Exception): pass\ndef w_{0}(self):\n    LOG.append(('inv', 'w_{0}'))\n    return _truth('w_{0}')\n".format(cls))
                w.append("@icontract.invariant(w_{0}, error=E_w_{0}, check_on=icontract.InvariantCheckEvent.CALL)\n".format(cls))
                w.append("@icontract.invariant(v_{0}, error=E_v_{0}, check_on=icontract.InvariantCheckEvent.ALL)\n".format(cls))
            elif spec.get("inv_mode") == "CS":
                # the SETATTR-only invariant is the outermost decorator, i.e. the last invariant of the class
                w.append("class E_s_{0}(Exception): pass\ndef s_{0}(self):\n    LOG.append(('inv', 's_{0}'))\n    return _truth('s_{0}')\n".format(cls))
                w.append("@icontract.invariant(s_{0}, error=E_s_{0}, check_on=icontract.InvariantCheckEvent.SETATTR)\n".format(cls))
                w.append("@icontract.invariant(v_{0}, error=E_v_{0})\n".format(cls))
            else:
                w.append("@icontract.invariant(v_{0}, error=E_v_{0})\n".format(cls))
        w.append("class {}({}):\n".format(cls, ", ".join(bases) if bases else "icontract.DBC"))
        body = []
        if iopt is not None or not bases:
            decos = ["@icontract.require({0}, error=E_{0})".format(n) for n in reversed(ipres)] + \
                    ["@icontract.ensure({0}, error=E_{0})".format(n) for n in reversed(iposts)]
            body += decos + ["def __init__(self, x=None):", "    LOG.append(('init', '{}'))".format(cls)]
        if mopt is not None:
            decos = ["@icontract.require({0}, error=E_{0})".format(n) for n in reversed(pres)] + \
                    ["@icontract.ensure({0}, error=E_{0})".format(n) for n in reversed(posts)]
            if spec.get("foreign_top"):
                decos = ["@fw"] + decos
            if cls in spec.get("abstract", ()):
                # an abstract method (nearest the function) - it provides the member without any precondition like any other one
                decos = decos + ["@abc.abstractmethod"]
            logb = "    LOG.append(('body', '{}'))".format(cls)
            if kind == "method":
                body += decos + ["def {}(self, x=None):".format(name), logb, "    return 1"]
            elif kind == "static":
                body += ["@staticmethod"] + decos + ["def {}(x=None):".format(name), logb, "    return 1"]
            elif kind == "classm":
                body += ["@classmethod"] + decos + ["def {}(cls, x=None):".format(name), logb, "    return 1"]
            elif kind == "pget":
                body += ["@property"] + decos + ["def {}(self):".format(name), logb, "    return 1"]
            elif kind == "pset":
                body += ["@property", "def {}(self):".format(name), "    return 1",
                         "@{}.setter".format(name)] + decos + ["def {}(self, x):".format(name), logb]
            elif kind == "pdel":
                body += ["@property", "def {}(self):".format(name), "    return 1",
                         "@{}.deleter".format(name)] + decos + ["def {}(self):".format(name), logb]
        if not body:
            body = ["pass"]
        w.append("".join("    " + ln + "\n" for ln in body))
    return "".join(w)


# ---------------------------------------------------------------------------------------------
# reference


class Ref:
    def __init__(self, spec, prefix=""):
        self.spec = spec
        self.prefix = prefix
        self.classes = SHAPES[spec["shape"]]
        self.bases = dict(self.classes)
        self.mopt = {c: o for (c, _), o in zip(self.classes, spec["members"])}
        self.iopt = {c: o for (c, _), o in zip(self.classes, spec["inits"])}
        self.inv = {c: i for (c, _), i in zip(self.classes, spec["invs"])}
        # bare twin hierarchy: Python's own MRO
        twins = {}
        for c, bs in self.classes:
            twins[c] = type(c, tuple(twins[b] for b in bs) or (object,), {})
        self.mro = {c: [k.__name__ for k in twins[c].__mro__ if k is not object] for c in twins}
        self.object_provides = spec["name"] == "__eq__"
        self._eff = {}
        self.def_error = {}  # class -> "must" | "may"
        for c, _ in self.classes:
            self.eff(c)

    def selected(self, c):
        for k in self.mro[c]:
            if self.mopt[k] is not None:
                return k
        return None

    def provides(self, c):
        return self.selected(c) is not None or self.object_provides

    def eff(self, c):
        """Effective (groups or 'TRUE', posts set) of the member as seen on class c; None if not provided."""
        if c in self._eff:
            return self._eff[c]
        opt = self.mopt[c]
        if opt is None:
            k = self.selected(c)
            r = self.eff(k) if k is not None else (("TRUE", frozenset()) if self.object_provides else None)
            self._eff[c] = r
            return r
        pres, posts = cnames(c, opt, self.prefix)
        bases = self.bases[c]
        base_effs = [self.inh(b) for b in bases if self.provides(b)]
        if not bases and self.object_provides:
            base_effs = [("TRUE", frozenset())]
        if not base_effs:
            groups = [pres] if pres else "TRUE"
        elif any(e[0] == "TRUE" for e in base_effs):
            if pres:
                self.def_error[c] = "must" if all(e[0] == "TRUE" for e in base_effs) else "may"
            groups = "TRUE"
        else:
            groups = [g for e in base_effs for g in e[0]] + ([pres] if pres else [])
        allposts = frozenset(posts).union(*[e[1] for e in base_effs]) if base_effs else frozenset(posts)
        self._eff[c] = (groups, allposts)
        return self._eff[c]

    def inh(self, c):
        """What a sub-class that overrides the member inherits through its base c. A class that defines the member hands on its
        effective contracts; a class that does NOT define it (a gap) hands on what all ITS bases hand on - not only the contracts of
        the implementation Python's MRO selects for calls on its own instances: the overriding sub-class is a subtype of every one
        of those ancestors."""
        if self.mopt[c] is not None:
            return self.eff(c)
        effs = [self.inh(b) for b in self.bases[c] if self.provides(b)]
        if not effs:
            return ("TRUE", frozenset()) if self.object_provides else None
        groups = "TRUE" if any(e[0] == "TRUE" for e in effs) else [g for e in effs for g in e[0]]
        return (groups, frozenset().union(*[e[1] for e in effs]))

    def invariants(self, c, event="call"):
        """Invariants evaluated around a call; event="construct": all of them (also the SETATTR-only ones)."""
        mode = self.spec.get("inv_mode")
        pre = ("v_", "w_") if mode == "AC" else (("v_", "s_") if mode == "CS" and event == "construct" else ("v_",))
        return {p + k for k in self.mro[c] if self.inv[k] for p in pre}

    def init_contracts(self, c):
        for k in self.mro[c]:
            if self.iopt[k] is not None or not self.bases[k]:
                return cnames(k, self.iopt[k], "i") + (k,)
        return [], [], None


def inv_copy_shadow(ref, cls):
    """True iff a class K ahead of the selected member in the MRO of ``cls`` does not define the member, declares the
    first invariant of its ancestry and therefore receives an invariant-wrapped *copy* of the member it inherits
    (known finding KF-C04-1: the copy shadows the member Python's MRO would select)."""
    sel = ref.selected(cls)
    for k in ref.mro[cls]:
        if k == sel:
            return False
        if ref.mopt[k] is None and ref.inv[k] and not any(ref.inv[a] for a in ref.mro[k][1:]) and ref.selected(k) is not None:
            return True
    return False


def accepts(groups, truth):
    if groups == "TRUE":
        return True
    return any(all(truth.get(n, True) for n in g) for g in groups)


# ---------------------------------------------------------------------------------------------


def feats(spec, cls=None, extra=None):
    f = {"shape": spec["shape"], "kind": spec["kind"], "name": spec["name"],
         "members": "/".join("-" if m is None else "{}{}".format(*m) for m in spec["members"]),
         "inits": "/".join("-" if m is None else "{}{}".format(*m) for m in spec["inits"]),
         "invs": "".join(str(i) for i in spec["invs"]), "on": cls, "inv_mode": spec.get("inv_mode", "C")}
    if extra:
        f.update(extra)
    return f


def do_call(ns, spec, obj, cls):
    kind, name = spec["kind"], spec["name"]
    if kind in ("method", "static", "classm"):
        if name == "__eq__":
            return obj == 3
        if name == "__call__":
            return obj([0])
        return getattr(obj, name)([0])
    if kind == "pget":
        return getattr(obj, name)
    if kind == "pset":
        return setattr(obj, name, [0])
    return delattr(obj, name)


def check_spec(spec, acc):
    ref = Ref(spec)
    src = render(spec)
    key0 = json.dumps(spec, sort_keys=True)
    ns, def_exc = None, None
    try:
        ns = core.fresh_ctx_run(core.load_source, src, "c04")
    except Exception as e:
        def_exc = e
    try:
        must = [c for c, v in ref.def_error.items() if v == "must"]
        may = [c for c, v in ref.def_error.items() if v == "may"]
        if must or may or def_exc is not None:
            acc.case(("def", key0), True, 1, "def:" + type(def_exc).__name__ if def_exc else "def:ok")
            if def_exc is None and must:
                acc.violation(core.Violation(PROP, "weakening_not_rejected", feats(spec, must[0]),
                                             "class {} adds preconditions although its ancestors declare none: expected TypeError at class creation".format(must),
                                             spec={"spec": spec}, script=src))
                return
            if def_exc is not None:
                if not (must or may) or type(def_exc) is not TypeError:
                    acc.violation(core.Violation(PROP, "unexpected_class_creation_error", feats(spec, extra={"exc": type(def_exc).__name__}),
                                                 "class creation raised {!r}".format(def_exc), spec={"spec": spec}, script=src))
                return
        kind = spec["kind"]
        for cls, _ in ref.classes:
            eff = ref.eff(cls)
            if eff is None and spec["name"] == "m":
                continue
            if ref.selected(cls) in spec.get("abstract", ()):
                continue  # the member Python selects for this class is abstract: the class can not be instantiated
            ipres, iposts, ik = ref.init_contracts(cls)
            invs = ref.invariants(cls)
            K = ns[cls]

            def construct(truth):
                ns["T"].clear()
                ns["T"].update(truth)
                del ns["LOG"][:]
                try:
                    return core.fresh_ctx_run(K, [0]), None
                except Exception as e:
                    return None, e

            # --- construction: only the selected constructor's own contracts, then all invariants
            init_names = ipres + iposts
            for truth in itertools.product([True, False], repeat=len(init_names)):
                truth = dict(zip(init_names, truth))
                obj, exc = construct(truth)
                log = list(ns["LOG"])
                acc.case((key0, cls, "init", tuple(sorted(truth.items()))), bool(init_names) or bool(invs), len(log),
                         type(exc).__name__ if exc else "ok")
                pre_ok = all(truth[n] for n in ipres)
                post_ok = all(truth[n] for n in iposts)
                body = [e for e in log if e[0] == "init"]
                evaluated = {e[1] for e in log if e[0] in ("pre", "post")}
                bad = None
                if not evaluated <= set(init_names):
                    bad = ("constructor_contracts_inherited", "evaluated {} but the selected constructor ({}) declares {}".format(
                        sorted(evaluated), ik, init_names))
                elif pre_ok != bool(body):
                    bad = ("constructor_precondition_verdict", "pre_ok={} body={}".format(pre_ok, body))
                elif pre_ok and post_ok and exc is not None:
                    bad = ("constructor_rejected", "exc={!r}".format(exc))
                elif (not pre_ok or not post_ok) and exc is None:
                    bad = ("constructor_violation_missed", "truth={}".format(truth))
                elif pre_ok and post_ok and {e[1] for e in log if e[0] == "inv"} != ref.invariants(cls, "construct"):
                    bad = ("invariants_after_construction", "expected {} got {}".format(sorted(ref.invariants(cls, "construct")), [e for e in log if e[0] == "inv"]))
                if bad:
                    acc.violation(core.Violation(PROP, bad[0], feats(spec, cls), bad[1] + " log={}".format(log),
                                                 spec={"spec": spec, "cls": cls, "truth": truth, "op": "init"}, script=src))
            if eff is None or ref.selected(cls) is None:
                continue  # nothing of the program's own to observe (e.g. object.__eq__)
            groups, posts = eff
            # all preconditions declared along the MRO take part in the truth tables, also when the effective one is TRUE
            pre_names = sorted({n for k in ref.mro[cls] for n in cnames(k, ref.mopt[k])[0]})
            names = pre_names + sorted(posts) + (sorted(invs) if kind not in ("static", "classm") else [])
            obj, exc = construct({})
            if obj is None:
                continue
            import mc.fam as fam
            for truth in fam.limited_truths(names, max_full=6, max_falsy=2):
                ns["T"].clear()
                ns["T"].update(truth)
                del ns["LOG"][:]
                exc = None
                try:
                    core.fresh_ctx_run(do_call, ns, spec, obj, cls)
                except Exception as e:
                    exc = e
                log = list(ns["LOG"])
                acc.case((key0, cls, "call", tuple(sorted(truth.items()))), bool(names), len(log), type(exc).__name__ if exc else "ok")
                inv_on = kind not in ("static", "classm")
                inv_ok = all(truth[n] for n in invs) if inv_on else True
                if not inv_ok:
                    # invariants-before fail first; body must not run
                    if any(e[0] == "body" for e in log) or exc is None:
                        acc.violation(core.Violation(PROP, "ancestor_invariant_not_enforced", feats(spec, cls, {"inv_copy_shadow": inv_copy_shadow(ref, cls)}),
                                                     "truth={} log={} exc={!r}".format(truth, log, exc),
                                                     spec={"spec": spec, "cls": cls, "truth": truth, "op": "call"}, script=src))
                    continue
                want = accepts(groups, truth)
                body = [e for e in log if e[0] == "body"]
                bad = None
                sel = ref.selected(cls)
                if want != bool(body):
                    bad = ("precondition_verdict", "effective precondition {} = {} but body {}".format(groups, want, "ran" if body else "did not run"))
                elif body and sel is not None and body[0][1] != sel:
                    bad = ("not_the_member_python_mro_selects", "body of {} ran, Python's MRO selects {}".format(body[0][1], sel))
                elif want:
                    evaluated = [e[1] for e in log if e[0] == "post"]
                    falsy = [n for n in sorted(posts) if not truth[n]]
                    if not falsy and set(evaluated) != set(posts):
                        bad = ("postcondition_set", "expected all of {} evaluated, got {}".format(sorted(posts), evaluated))
                    elif falsy and (exc is None or type(exc).__name__[2:] not in falsy):
                        bad = ("postcondition_violation_missed", "falsy {} but outcome {!r}".format(falsy, exc))
                    elif not falsy and exc is not None:
                        bad = ("unexpected_error", "{!r}".format(exc))
                    elif not falsy and inv_on and {e[1] for e in log if e[0] == "inv"} != invs:
                        bad = ("invariant_set", "expected {} got {}".format(sorted(invs), sorted({e[1] for e in log if e[0] == "inv"})))
                elif exc is None or type(exc).__name__[2:] not in pre_names:
                    bad = ("wrong_error", "rejected call raised {!r}".format(exc))
                if bad:
                    acc.violation(core.Violation(PROP, bad[0], feats(spec, cls, {"inv_copy_shadow": inv_copy_shadow(ref, cls)}), bad[1] + "\n truth(falsy)={} log={}".format(
                        [k for k, v in truth.items() if not v], log),
                        spec={"spec": spec, "cls": cls, "truth": truth, "op": "call"}, script=src))
        acc.sample({"spec": spec}, cap=2)
    finally:
        if ns is not None:
            core.unload_source(ns)


# ---------------------------------------------------------------------------------------------
# properties with three accessors, each with its own contract placement (cross-accessor contamination)

ACC = [("g", "getter"), ("s", "setter"), ("d", "deleter")]


def prop3_specs(tier):
    out = []
    opts = [(0, 0), (1, 1)] if tier == "quick" else [(0, 0), (1, 0), (0, 1), (1, 1)]
    per_class = [None] + [list(t) for t in itertools.product(opts, repeat=3)]
    for shape in ("single", "chain2") if tier == "quick" else ("single", "chain2", "two_bases", "chain3"):
        classes = SHAPES[shape]
        if len(classes) == 3 and tier == "thorough":
            pc = [None] + [list(t) for t in itertools.product([(0, 0), (1, 1)], repeat=3)]
        else:
            pc = per_class
        for combo in itertools.product(pc, repeat=len(classes)):
            if combo[0] is None:
                continue
            out.append({"family": "prop3", "shape": shape, "props": list(combo)})
        if shape in ("chain2", "chain3"):
            # the last class extends the INHERITED property with a setter of its own (@Base.m.setter): getter and deleter are shared
            for base_opt in pc[1:]:
                for sopt in opts:
                    props = [base_opt] + [None] * (len(classes) - 2) + [{"ext_setter": list(sopt)}]
                    out.append({"family": "prop3", "shape": shape, "props": props})
                    # ... and with class invariants on the root, on the extending class, or on both: every accessor of every
                    # class must be surrounded by the invariants of the whole ancestry
                    if base_opt == pc[1] or base_opt == pc[-1]:
                        for inv in ([classes[0][0]], [classes[-1][0]], [classes[0][0], classes[-1][0]]):
                            out.append({"family": "prop3", "shape": shape, "props": props, "inv": inv})
    # the MIDDLE class of a chain extends the inherited property with a setter of its own (and declares the first invariants of the
    # ancestry, or none), the last class re-defines the whole property: the contracts of the middle setter are inherited
    classes = SHAPES["chain3"]
    for base_opt in (pc[1], pc[-1]):
        for sopt in opts:
            for last_opt in (pc[1], pc[-1]):
                props = [base_opt, {"ext_setter": list(sopt)}, last_opt]
                out.append({"family": "prop3", "shape": "chain3", "props": props})
                for inv in (["A"], ["B"], ["A", "B"], ["C"]):
                    out.append({"family": "prop3", "shape": "chain3", "props": props, "inv": inv})
    # several bases: the last class extends the property of its FIRST base with a setter of its own; the getter and the deleter
    # stay the very accessors of that base, whose contracts (and those of the other base) must stay as they are
    for shape in ("two_bases", "two_bases_rev"):
        classes = SHAPES[shape]
        two = [list(t) for t in itertools.product([(0, 0), (1, 1)], repeat=3)]
        for pa in (two if tier == "thorough" else [two[0], two[-1]]):
            for pb in (two if tier == "thorough" else [two[0], two[-1]]):
                for sopt in opts:
                    out.append({"family": "prop3", "shape": shape, "props": [pa, pb, {"ext_setter": list(sopt)}]})
    return out


def render_prop3(spec):
    classes = SHAPES[spec["shape"]]
    w = [PRELUDE]
    for (cls, bases), popt in zip(classes, spec["props"]):
        body = []
        if not bases:
            body += ["def __init__(self):", "    self.a = 1"]
        if isinstance(popt, dict):
            opt = tuple(popt["ext_setter"])
            pres, posts = cnames(cls, opt, "s")
            for n in pres:
                w.append("class E_{0}(Exception): pass\ndef {0}(x):\n    LOG.append(('pre', '{0}'))\n    return _truth('{0}')\n".format(n))
            for n in posts:
                w.append("class E_{0}(Exception): pass\ndef {0}(result):\n    LOG.append(('post', '{0}'))\n    return _truth('{0}')\n".format(n))
            decos = ["@icontract.require({0}, error=E_{0})".format(n) for n in reversed(pres)] + \
                    ["@icontract.ensure({0}, error=E_{0})".format(n) for n in reversed(posts)]
            body += ["@{}.m.setter".format(bases[0])] + decos + ["def m(self, x):", "    LOG.append(('body', '{}.s'))".format(cls)]
        elif popt is not None:
            for (tag, _), opt in zip(ACC, popt):
                pres, posts = cnames(cls, tuple(opt), tag)
                arg = "x" if tag == "s" else "self"
                for n in pres:
                    w.append("class E_{0}(Exception): pass\ndef {0}({1}):\n    LOG.append(('pre', '{0}'))\n    return _truth('{0}')\n".format(n, arg))
                for n in posts:
                    w.append("class E_{0}(Exception): pass\ndef {0}(result):\n    LOG.append(('post', '{0}'))\n    return _truth('{0}')\n".format(n))
            for (tag, _), opt in zip(ACC, popt):
                pres, posts = cnames(cls, tuple(opt), tag)
                decos = ["@icontract.require({0}, error=E_{0})".format(n) for n in reversed(pres)] + \
                        ["@icontract.ensure({0}, error=E_{0})".format(n) for n in reversed(posts)]
                head = {"g": ["@property"], "s": ["@m.setter"], "d": ["@m.deleter"]}[tag]
                sig = {"g": "def m(self):", "s": "def m(self, x):", "d": "def m(self):"}[tag]
                body += head + decos + [sig, "    LOG.append(('body', '{}.{}'))".format(cls, tag)] + (["    return 1"] if tag == "g" else [])
        if not body:
            body = ["pass"]
        if cls in spec.get("inv", ()):
            w.append("def i_{0}(self):\n    LOG.append(('inv', 'i_{0}'))\n    return True\n@icontract.invariant(i_{0})\n".format(cls))
        w.append("class {}({}):\n".format(cls, ", ".join(bases) if bases else "icontract.DBC") + "".join("    " + ln + "\n" for ln in body))
    return "".join(w)


def check_prop3(spec, acc):
    src = render_prop3(spec)
    key0 = json.dumps(spec, sort_keys=True)
    classes = SHAPES[spec["shape"]]
    refs = {}
    for ai, (tag, _) in enumerate(ACC):
        sub = {"shape": spec["shape"], "kind": {"g": "pget", "s": "pset", "d": "pdel"}[tag], "name": "m",
               "members": [None if p is None else ((tuple(p["ext_setter"]) if tag == "s" else None) if isinstance(p, dict) else tuple(p[ai]))
                           for p in spec["props"]], "invs": [0] * len(classes), "inits": [None] * len(classes)}
        refs[tag] = Ref(sub, prefix=tag)
    must = [c for r in refs.values() for c, v in r.def_error.items() if v == "must"]
    may = [c for r in refs.values() for c, v in r.def_error.items() if v == "may"]
    f0 = {"family": "prop3", "shape": spec["shape"],
          "inv": "+".join(spec.get("inv", [])) or None,
          "props": "/".join("-" if p is None else ("ext_s{}{}".format(*p["ext_setter"]) if isinstance(p, dict) else "".join("{}{}".format(*o) for o in p))
                            for p in spec["props"])}
    ns, def_exc = None, None
    try:
        ns = core.fresh_ctx_run(core.load_source, src, "c04p")
    except Exception as e:
        def_exc = e
    try:
        if must or may or def_exc is not None:
            acc.case(("def", key0), True, 1, "def:" + (type(def_exc).__name__ if def_exc else "ok"))
            if def_exc is None and must:
                acc.violation(core.Violation(PROP, "weakening_not_rejected", dict(f0, on=must[0]), "accessor adds preconditions although its ancestors declare none",
                                             spec={"spec": spec}, script=src))
                return
            if def_exc is not None:
                if not (must or may) or type(def_exc) is not TypeError:
                    acc.violation(core.Violation(PROP, "unexpected_class_creation_error", dict(f0, exc=type(def_exc).__name__), repr(def_exc),
                                                 spec={"spec": spec}, script=src))
                return
        import mc.fam as fam
        for cls, _ in classes:
            K = ns[cls]
            ns["T"].clear()
            obj = core.fresh_ctx_run(K)
            for tag, accname in ACC:
                ref = refs[tag]
                sel = ref.selected(cls)
                if sel is None:
                    continue
                groups, posts = ref.eff(cls)
                own_names = sorted({n for k in ref.mro[cls] for n in cnames(k, ref.mopt[k], tag)[0]}) + sorted(posts)
                for truth in fam.limited_truths(own_names, max_full=5, max_falsy=2):
                    ns["T"].clear()
                    ns["T"].update(truth)
                    del ns["LOG"][:]
                    exc = None
                    try:
                        if tag == "g":
                            core.fresh_ctx_run(lambda: obj.m)
                        elif tag == "s":
                            core.fresh_ctx_run(setattr, obj, "m", [0])
                        else:
                            core.fresh_ctx_run(delattr, obj, "m")
                    except Exception as e:
                        exc = e
                    log = list(ns["LOG"])
                    acc.case((key0, cls, tag, tuple(sorted(truth.items()))), bool(own_names), len(log), type(exc).__name__ if exc else "ok")
                    feats = dict(f0, on=cls, accessor=accname)
                    evaluated = [e[1] for e in log if e[0] in ("pre", "post")]
                    foreign = [n for n in evaluated if not n.startswith(tag + "p_") and not n.startswith(tag + "q_")]
                    body = [e[1] for e in log if e[0] == "body"]
                    want = accepts(groups, truth)
                    bad = None
                    if foreign:
                        bad = ("accessor_evaluates_contracts_of_another_accessor", "{} of {} evaluated {}".format(accname, cls, foreign))
                    elif want != bool(body):
                        bad = ("precondition_verdict", "{} of {}: effective precondition {} = {} but body {}".format(accname, cls, groups, want, body))
                    elif body and body != ["{}.{}".format(sel, tag)]:
                        bad = ("not_the_member_python_mro_selects", "{} expected {}.{}".format(body, sel, tag))
                    elif want:
                        falsy = [n for n in sorted(posts) if not truth[n]]
                        got_posts = [e[1] for e in log if e[0] == "post"]
                        if not falsy and (set(got_posts) != set(posts) or exc is not None):
                            bad = ("postcondition_set", "expected {} got {} exc={!r}".format(sorted(posts), got_posts, exc))
                        elif falsy and (exc is None or type(exc).__name__[2:] not in falsy):
                            bad = ("postcondition_violation_missed", "falsy {} outcome {!r}".format(falsy, exc))
                    elif exc is None or not type(exc).__name__.startswith("E_" + tag + "p_"):
                        bad = ("wrong_error", repr(exc))
                    if not bad and spec.get("inv"):
                        want_inv = sorted("i_" + k for k in ref.mro[cls] if k in spec["inv"]) * (1 if exc is not None else 2)
                        got_inv = sorted(e[1] for e in log if e[0] == "inv")
                        if sorted(want_inv) != got_inv:
                            bad = ("invariant_set", "{} of {}: expected the invariants {} around the call, evaluated {}".format(
                                accname, cls, sorted(want_inv), got_inv))
                    if bad:
                        acc.violation(core.Violation(PROP, bad[0], feats, bad[1] + " falsy={} log={}".format([k for k, v in truth.items() if not v], log),
                                                     spec={"spec": spec, "cls": cls, "accessor": tag, "truth": truth}, script=src))
                        break
        acc.sample({"spec": spec}, cap=1)
    finally:
        if ns is not None:
            core.unload_source(ns)


def work(chunk):
    acc = core.Acc()
    for spec in chunk:
        if spec.get("family") == "prop3":
            check_prop3(spec, acc)
        else:
            check_spec(spec, acc)
    return acc.result()


def run(tier, t0):
    sp = core.rotate(specs(tier) + prop3_specs(tier))
    tot = core.merge(core.pmap(work, sp))
    return core.finish(
        PROP, tier, tot, t0,
        rule="every hierarchy shape ({}) x member kind x per-class member placement (absent / bare / +pre / +post / +pre+post) "
             "x invariant placement, plus members named __call__/register/mro/__eq__ and constructor-contract placements; "
             "on an instance of EVERY class: all truth assignments of the conditions in effect (<=6: all; more: <=2 falsy) - "
             "accept/reject verdict vs the DNF of the declaration, evaluated postcondition set, invariant set, "
             "class-creation errors; non-trivial = at least one condition in effect".format(
                 ", ".join(sorted(set(s["shape"] for s in sp)))),
        assumptions=["when only some bases are unconstrained and the class adds preconditions the statement admits both a "
                     "TypeError at creation and acceptance with precondition TRUE"],
        bounds={"programs": len(sp), "max_classes": 4},
    )


def replay(path):
    data = json.load(open(path))["spec"]
    acc = core.Acc()
    (check_prop3 if data["spec"].get("family") == "prop3" else check_spec)(data["spec"], acc)
    for v in acc.violations[:5]:
        print("VIOLATION property={} replay={}".format(PROP, path))
        print(" ", v.symptom, v.detail[:400])
    return 1 if acc.violations else 0
