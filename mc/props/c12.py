"""C12 - concurrent callers never disable each other's checks.

(a) asyncio: real Tasks on a virtual loop, ALL interleavings of 2-3 concurrent contracted calls with suspension
points in coroutine preconditions / captures / postconditions / bodies, in several context-inheritance modes.
(b) threads: real threads under a baton scheduler, iterative preemption bounding (0,1,2), scheduling points at
entries into user code (G1) and at every line of the wrapper frames (G2) / of any _checkers.py frame (G3).
Oracle: every call's verdict and own event log equal those of the same call executed alone in a fresh context."""
import contextvars
import itertools
import json
import os
import sys

from .. import core, sched

PROP = "C12"

SRC = '''\
import asyncio
import icontract
LOG = []
SUSP = {"pre": False, "cap": False, "post": False, "body": True}
POINT = {"fn": None}
class Tick:
    def __await__(self):
        yield None
class Viol(Exception): pass
class ViolPost(Exception): pass
class ViolInv(Exception): pass
def pt():
    if POINT["fn"] is not None:
        POINT["fn"]()
async def a_pre(x, tag):
    LOG.append((tag, "pre"))
    if SUSP["pre"]:
        await Tick()
        LOG.append((tag, "pre2"))
    return x > 0
async def a_cap(x, tag):
    LOG.append((tag, "cap"))
    if SUSP["cap"]:
        await Tick()
    return x
async def a_post(result, x, tag):
    LOG.append((tag, "post"))
    if SUSP["post"]:
        await Tick()
        LOG.append((tag, "post2"))
    return result != 70

@icontract.snapshot(lambda x, tag: a_cap(x, tag), name="s")
@icontract.require(lambda x, tag: a_pre(x, tag), error=lambda: Viol())
@icontract.ensure(lambda result, x, tag, OLD: a_post(result, x, tag), error=lambda: ViolPost())
async def af(x, tag):
    LOG.append((tag, "body"))
    if SUSP["body"]:
        await Tick()
        LOG.append((tag, "body2"))
    return x * 10

def inv(self):
    LOG.append((CUR.get("tag"), "inv"))
    return self.ok
CUR = {}
def tagged_inv(self):
    return inv(self)

@icontract.invariant(lambda self: self.ok is True, error=ViolInv)
class K(icontract.DBC):
    def __init__(self):
        self.ok = True
    @icontract.require(lambda self, x, tag: a_pre(x, tag), error=lambda: Viol())
    @icontract.ensure(lambda self, result, x, tag: a_post(result, x, tag), error=lambda: ViolPost())
    async def am(self, x, tag):
        LOG.append((tag, "body"))
        if SUSP["body"]:
            await Tick()
            LOG.append((tag, "body2"))
        return x * 10
    @icontract.require(lambda self, x, tag: s_pre(x, tag), error=lambda: Viol())
    @icontract.ensure(lambda self, result, x, tag: s_post(result, x, tag), error=lambda: ViolPost())
    def sm(self, x, tag):
        pt()
        LOG.append((tag, "body"))
        pt()
        return x * 10

async def _brk(self, x, tag):
    # a public method that leaves the invariant broken: the check after the call must report it
    LOG.append((tag, "body"))
    self.ok = False
    return x * 10
K.brk = _brk
TASKS = {}
@icontract.require(lambda: True)
def checked_nop():
    return 0
async def _spawn_detached(self, calls):
    # fire and forget: the children are created inside the body of a public method of THIS object and run after it returned
    loop = asyncio.get_running_loop()
    for lab, coro in calls:
        TASKS[lab] = loop.create_task(coro)
    # the parent goes on with other checked calls while its own call is still in flight (its marks are re-built meanwhile)
    checked_nop()
    return 0
K.spawn_detached = _spawn_detached
async def _spawn(self, calls):
    # runs inside the BODY of a public method of an invariant class: the children copy the context *now*
    loop = asyncio.get_running_loop()
    kids = []
    for lab, coro in calls:
        t = loop.create_task(coro)
        TASKS[lab] = t
        kids.append(t)
    await asyncio.gather(*kids, return_exceptions=True)
    return 0
K.spawn = _spawn
icontract.invariant(lambda self: self.ok is True, error=ViolInv)(K)  # re-decorate so that spawn gets the invariant wrapper

async def g_base(x, tag):
    LOG.append((tag, "gbase"))
    if SUSP["pre"]:
        await Tick()
    return x > 100
async def g_child(x, tag):
    LOG.append((tag, "gchild"))
    if SUSP["pre"]:
        await Tick()
    return x >= 0
class WB(icontract.DBC):
    @icontract.require(lambda self, x, tag: g_base(x, tag), error=lambda: Viol())
    async def put(self, x, tag):
        return x
class WC(WB):
    # weakens the precondition: a second ("require else") group
    @icontract.require(lambda self, x, tag: g_child(x, tag), error=lambda: Viol())
    async def put(self, x, tag):
        LOG.append((tag, "body"))
        if SUSP["body"]:
            await Tick()
        return x * 10

def s_pre(x, tag):
    pt()
    LOG.append((tag, "pre"))
    pt()
    return x > 0
def s_cap(x, tag):
    pt()
    LOG.append((tag, "cap"))
    return x
def s_post(result, x, tag):
    pt()
    LOG.append((tag, "post"))
    pt()
    return result != 70

@icontract.snapshot(lambda x, tag: s_cap(x, tag), name="s")
@icontract.require(lambda x, tag: s_pre(x, tag), error=lambda: Viol())
@icontract.ensure(lambda result, x, tag, OLD: s_post(result, x, tag), error=lambda: ViolPost())
def sf(x, tag):
    pt()
    LOG.append((tag, "body"))
    pt()
    return x * 10
'''

# ---------------------------------------------------------------------------------------------
# task scenarios

SUSP_SETS = [("body",), ("pre",), ("post",), ("cap",), ("pre", "body"), ("pre", "cap", "post", "body")]
TASK_CALLS = {
    # name: list of (kind, x) ; kind: af | am_same | am_two
    "af:pass+viol": [("af", 1), ("af", -1)],
    "af:viol+pass": [("af", -1), ("af", 1)],
    "af:pass+pass": [("af", 1), ("af", 2)],
    "af:viol+viol": [("af", -1), ("af", -2)],
    "af:pass+postviol": [("af", 1), ("af", 7)],
    "brk_spawner+am_other": [("brk0", 1), ("am1", 1)],
    "am_spawner+brk_spawner": [("am0", 1), ("brk0", 1)],
    "brk_spawner+am_spawner": [("brk0", 1), ("am0", 1)],
    "am_same:pass+viol": [("am0", 1), ("am0", -1)],
    "am_same:viol+pass": [("am0", -1), ("am0", 1)],
    "am_two:pass+viol": [("am0", 1), ("am1", -1)],
    "af+am:pass+viol": [("af", 1), ("am0", -1)],
    "put:second_group+first_group": [("put", 5), ("put", 200)],
    "put:first_group+viol": [("put", 200), ("put", -5)],
    "put:second+second": [("put", 5), ("put", 7)],
}
TASK_CALLS3 = {
    "af:pass+viol+pass": [("af", 1), ("af", -1), ("af", 2)],
    "af:viol+pass+postviol": [("af", -1), ("af", 1), ("af", 7)],
    "am_same:pass+viol+pass": [("am0", 1), ("am0", -1), ("am0", 2)],
    "mixed:af+am0+am1": [("af", -1), ("am0", 1), ("am1", -1)],
}
CTX_MODES = ["fresh", "after_parent", "parent_participates", "after_parent_violation", "spawned_from_method_body",
             "detached_from_method_body_of_a_target"]


def task_scenarios(tier):
    out = []
    calls = dict(TASK_CALLS)
    if tier == "thorough":
        calls.update(TASK_CALLS3)
    for cname, cl in calls.items():
        for susp in SUSP_SETS:
            if len(cl) == 3 and len(susp) > 2:
                continue  # 3 tasks x 4 suspension points: > 10^5 schedules; covered with <= 2 suspension kinds
            for mode in CTX_MODES:
                out.append({"engine": "tasks", "calls": cname, "susp": list(susp), "mode": mode})
    return out


_NS = {}


def get_ns():
    if "ns" not in _NS:
        _NS["ns"] = core.load_source(SRC, "c12")
    return _NS["ns"]


def call_coro(ns, objs, kind, x, tag):
    if kind == "af":
        return ns["af"](x, tag)
    if kind == "put":
        return objs[2].put(x, tag)
    if kind.startswith("brk"):
        return objs[int(kind[3])].brk(x, tag)
    return objs[int(kind[2])].am(x, tag)


def task_alone(ns, kind, x, tag, susp):
    """The same call executed alone in a fresh context: reference verdict and event log."""
    def go():
        for k in ns["SUSP"]:
            ns["SUSP"][k] = k in susp
        del ns["LOG"][:]
        objs = [ns["K"](), ns["K"](), ns["WC"]()]
        try:
            r = ("ret", core.run_coro(call_coro(ns, objs, kind, x, tag)))
        except Exception as e:
            r = ("exc", type(e).__name__)
        return r, [ev for ev in ns["LOG"] if ev[0] == tag]
    return core.fresh_ctx_run(go)


def check_task_scenario(sc, acc, budget):
    ns = get_ns()
    cl = dict(TASK_CALLS, **TASK_CALLS3)[sc["calls"]]
    susp = sc["susp"]
    mode = sc["mode"]
    labels = ["T{}".format(i) for i in range(len(cl))]
    reference = {lab: task_alone(ns, kind, x, lab, susp) for lab, (kind, x) in zip(labels, cl)}
    feats = {"engine": "tasks", "calls": sc["calls"], "susp": "+".join(susp), "mode": mode}
    outcomes = set()
    state = {"viol": 0}

    def make_tasks(loop):
        for k in ns["SUSP"]:
            ns["SUSP"][k] = k in susp
        del ns["LOG"][:]
        parent = contextvars.Context()
        # the objects are built in a throw-away context so that the parent context is pristine unless the mode says otherwise
        objs = contextvars.Context().run(lambda: [ns["K"](), ns["K"](), ns["WC"]()])
        if mode == "detached_from_method_body_of_a_target":
            # the participants are created (not awaited) inside the body of a public method of objs[0] - an object that some of
            # them call later, when that method has long returned: their calls are not nested in any running call
            ns["TASKS"].clear()
            calls = [(lab, call_coro(ns, objs, kind, x, lab)) for lab, (kind, x) in zip(labels, cl)]
            ns["TASKS"]["P"] = loop.create_task(objs[0].spawn_detached(calls), context=parent)
            return ns["TASKS"]
        if mode == "spawned_from_method_body":
            # the participants are spawned from INSIDE the body of a public method of an invariant class (a third object):
            # their contexts are copies of the parent's context while it holds the mark of that object
            spawner = contextvars.Context().run(ns["K"])
            ns["TASKS"].clear()
            calls = [(lab, call_coro(ns, objs, kind, x, lab)) for lab, (kind, x) in zip(labels, cl)]
            ns["TASKS"]["P"] = loop.create_task(spawner.spawn(calls), context=parent)
            return ns["TASKS"]
        if mode == "after_parent":
            # the parent executes contracted code to completion BEFORE spawning tasks that copy its context
            parent.run(lambda: core.run_coro(ns["af"](5, "P")))
        elif mode == "after_parent_violation":
            def pv():
                try:
                    core.run_coro(ns["af"](-5, "P"))
                except ns["Viol"]:
                    pass
            parent.run(pv)
        tasks = {}
        for lab, (kind, x) in zip(labels, cl):
            if mode == "fresh":
                ctx = contextvars.Context()
            else:
                ctx = parent.run(contextvars.copy_context)
            tasks[lab] = loop.create_task(call_coro(ns, objs, kind, x, lab), context=ctx)
        if mode == "parent_participates":
            # tasks were created (contexts copied) before; the parent now runs contracted code concurrently
            tasks["P"] = loop.create_task(ns["af"](5, "P"), context=parent)
        return tasks

    orders = set()

    def check(rec):
        outcomes.add(tuple(sorted(rec.results.items())))
        log = list(ns["LOG"])
        orders.add(hash(tuple(log)))
        if rec.deadlock:
            state["viol"] += 1
            acc.violation(core.Violation(PROP, "deadlock", feats, "schedule {} left tasks pending: {}".format(rec.choices, rec.results),
                                         spec={"scenario": sc, "schedule": rec.choices}))
            return
        for lab in labels:
            want_r, want_log = reference[lab]
            if cl[labels.index(lab)][0].startswith("am") and any(k.startswith("brk") and k[3] == cl[labels.index(lab)][0][2] for k, _ in cl):
                # another participant breaks the invariant of the very object this call is made on: the verdict of this call
                # legitimately depends on the STATE of the object at the time of its checks; only the breaker is judged
                continue
            got_r = rec.results.get(lab)
            got_log = [ev for ev in log if ev[0] == lab]
            if got_r != want_r or got_log != want_log:
                state["viol"] += 1
                acc.violation(core.Violation(
                    PROP, "verdict_depends_on_concurrent_call" if got_r != want_r else "checks_skipped_under_concurrency",
                    feats, "schedule {}: call {} {} alone -> {} log {}; concurrently -> {} log {}".format(
                        rec.choices, lab, cl[labels.index(lab)], want_r, [e[1] for e in want_log], got_r, [e[1] for e in got_log]),
                    spec={"scenario": sc, "schedule": rec.choices},
                    script=SRC + "\n# scenario {} ; schedule (index into the ready queue at each loop step): {}\n".format(sc, rec.choices)))
                return

    schedules, nodes, steps, capped = sched.explore_tasks(make_tasks, check, budget=budget)
    key = json.dumps(sc, sort_keys=True)
    acc.case(key, True, steps, ("outcomes", len(outcomes)))
    acc.evaluations += schedules - 1
    acc.states.update(hash((key, i)) for i in range(nodes))
    acc.nontrivial.update(hash((key, "s", i)) for i in range(schedules))
    acc.bump("task_schedules", schedules)
    acc.bump("task_distinct_global_event_orders", len(orders))
    acc.bump("task_scenarios", 1)
    if capped:
        acc.bump("capped_scenarios", 1)
    if len(outcomes) > 1:
        acc.bump("scenarios_with_several_outcome_vectors", 1)
    acc.sample({"scenario": sc, "schedules": schedules, "distinct_outcome_vectors": len(outcomes)}, cap=2)


# ---------------------------------------------------------------------------------------------
# thread scenarios

THREAD_CALLS = {
    "sf:pass+viol": [("sf", 1), ("sf", -1)],
    "sf:viol+pass": [("sf", -1), ("sf", 1)],
    "sf:pass+postviol": [("sf", 1), ("sf", 7)],
    "sm_same:pass+viol": [("sm0", 1), ("sm0", -1)],
    "sm_two:pass+viol": [("sm0", 1), ("sm1", -1)],
}
THREAD_CALLS3 = {
    "sf:pass+viol+pass": [("sf", 1), ("sf", -1), ("sf", 2)],
    "mixed:sf+sm0+sm1": [("sf", -1), ("sm0", 1), ("sm1", -1)],
}
THREAD_MODES = ["empty", "copied_after_parent", "copied_before_parent"]


def thread_scenarios(tier):
    out = []
    for cname in THREAD_CALLS:
        for mode in THREAD_MODES:
            out.append({"engine": "threads", "calls": cname, "mode": mode, "gran": "G1", "bound": 2})
    if tier == "thorough":
        for cname in THREAD_CALLS3:
            for mode in THREAD_MODES:
                out.append({"engine": "threads", "calls": cname, "mode": mode, "gran": "G1", "bound": 2})
        for cname in ("sf:pass+viol", "sm_same:pass+viol", "sm_two:pass+viol"):
            for mode in THREAD_MODES:
                out.append({"engine": "threads", "calls": cname, "mode": mode, "gran": "G2", "bound": 2})
                out.append({"engine": "threads", "calls": cname, "mode": mode, "gran": "G3", "bound": 1})
    else:
        out.append({"engine": "threads", "calls": "sf:pass+viol", "mode": "empty", "gran": "G2", "bound": 1})
        out.append({"engine": "threads", "calls": "sf:pass+viol", "mode": "copied_after_parent", "gran": "G2", "bound": 1})
    return out


def call_sync(ns, objs, kind, x, tag):
    if kind == "sf":
        return ns["sf"](x, tag)
    return objs[int(kind[2])].sm(x, tag)


def thread_alone(ns, kind, x, tag):
    def go():
        del ns["LOG"][:]
        ns["POINT"]["fn"] = None
        objs = [ns["K"](), ns["K"]()]
        try:
            r = ("ret", call_sync(ns, objs, kind, x, tag))
        except Exception as e:
            r = ("exc", type(e).__name__)
        return r, [ev for ev in ns["LOG"] if ev[0] == tag]
    return core.fresh_ctx_run(go)


def check_thread_scenario(sc, acc, budget, root_prefix=()):
    ns = get_ns()
    cl = dict(THREAD_CALLS, **THREAD_CALLS3)[sc["calls"]]
    mode = sc["mode"]
    labels = ["T{}".format(i) for i in range(len(cl))]
    reference = {lab: thread_alone(ns, kind, x, lab) for lab, (kind, x) in zip(labels, cl)}
    feats = {"engine": "threads", "calls": sc["calls"], "mode": mode, "gran": sc["gran"], "bound": sc["bound"]}
    line_trace = {"G1": None, "G2": "wrapper", "G3": "all"}[sc["gran"]]
    outcomes = set()

    def make_run(prefix):
        del ns["LOG"][:]
        ts = sched.ThreadSched(len(cl), line_trace=line_trace)
        ns["POINT"]["fn"] = ts.point
        parent = contextvars.Context()
        objs = contextvars.Context().run(lambda: [ns["K"](), ns["K"]()])
        ctxs = []
        if mode == "copied_before_parent":
            ctxs = [parent.run(contextvars.copy_context) for _ in cl]
        if mode in ("copied_after_parent", "copied_before_parent"):
            parent.run(lambda: ns["sf"](5, "P"))
        if mode == "copied_after_parent":
            ctxs = [parent.run(contextvars.copy_context) for _ in cl]
        targets = []
        for i, (lab, (kind, x)) in enumerate(zip(labels, cl)):
            if mode == "empty":
                targets.append(lambda kind=kind, x=x, lab=lab: call_sync(ns, objs, kind, x, lab))
            else:
                targets.append(lambda kind=kind, x=x, lab=lab, c=ctxs[i]: c.run(call_sync, ns, objs, kind, x, lab))
        try:
            return ts.run(targets, prefix, sc["bound"])
        finally:
            ns["POINT"]["fn"] = None

    orders = set()

    def check(results, choices):
        vec = tuple(results)
        outcomes.add(vec)
        log = list(ns["LOG"])
        orders.add(hash(tuple(log)))
        for i, lab in enumerate(labels):
            want_r, want_log = reference[lab]
            got_r = results[i]
            got_log = [ev for ev in log if ev[0] == lab]
            if got_r != want_r or got_log != want_log:
                acc.violation(core.Violation(
                    PROP, "verdict_depends_on_concurrent_call" if got_r != want_r else "checks_skipped_under_concurrency",
                    feats, "thread schedule {}: call {} {} alone -> {} log {}; concurrently -> {} log {}".format(
                        choices, lab, cl[i], want_r, [e[1] for e in want_log], got_r, [e[1] for e in got_log]),
                    spec={"scenario": sc, "schedule": choices},
                    script=SRC + "\n# scenario {} ; thread schedule (index into [running thread first, then ascending ids] at each point): {}\n".format(sc, choices)))
                return

    tot_s = tot_n = tot_st = 0
    capped_any = False
    # iterative preemption bounding: 0, 1, ..., bound (each bound re-explores the smaller ones; counted once at the top bound)
    for b in range(0, sc["bound"] + 1):
        schedules, nodes, steps, capped = sched.explore_threads(make_run, check, b, root_prefix=root_prefix, budget=budget)
        if acc.nviol:
            break
        if b == sc["bound"]:
            tot_s, tot_n, tot_st = schedules, nodes, steps
        capped_any = capped_any or capped
    key = json.dumps(sc, sort_keys=True) + str(list(root_prefix))
    acc.case(key, True, tot_st, ("outcomes", len(outcomes)))
    acc.evaluations += max(0, tot_s - 1)
    acc.states.update(hash((key, i)) for i in range(tot_n))
    acc.nontrivial.update(hash((key, "s", i)) for i in range(tot_s))
    acc.bump("thread_schedules_at_top_bound", tot_s)
    acc.bump("thread_scenarios", 1)
    acc.bump("thread_distinct_global_event_orders", len(orders))
    if capped_any:
        acc.bump("capped_scenarios", 1)
    if len(outcomes) > 1:
        acc.bump("scenarios_with_several_outcome_vectors", 1)
    acc.sample({"scenario": sc, "schedules_at_bound": tot_s, "distinct_outcome_vectors": len(outcomes)}, cap=2)


# ---------------------------------------------------------------------------------------------------------------
# finalisation elsewhere: a suspended checked coroutine (started in a context of its own) is closed / thrown into / resumed
# at every point of ANOTHER checked call - of the same instance, of another instance, of a function - in every context
# relation; the other call's verdict and the later calls must not depend on it

FIN_SRC = """\
import contextvars
import icontract
LOG = []
T = {}
HOOK = {}
class Boom(Exception): pass
class Tick:
    def __await__(self):
        yield self
def lab(o):
    return getattr(o, "name", "?")
def inv(self):
    LOG.append(("inv", lab(self)))
    return T.get("inv", True)
async def apre(self):
    if "pre" in HOOK.get("susp", ()):
        await Tick()
    LOG.append(("apre", lab(self)))
    return True
def fpre():
    LOG.append(("fpre",))
    h = HOOK.get("f.pre")
    if h:
        h()
    return True
@icontract.invariant(inv)
class K:
    def __init__(self, name):
        self.name = name
    @icontract.require(apre)
    async def am(self):
        LOG.append(("am.begin", lab(self)))
        if "body" in HOOK.get("susp", ()):
            await Tick()
        LOG.append(("am.end", lab(self)))
        return 1
    def m2(self, other):
        LOG.append(("m2.begin", lab(self)))
        h = HOOK.get("m2.body")
        if h:
            h()
        self.m3()
        other.m3()
        LOG.append(("m2.end", lab(self)))
    def m3(self):
        LOG.append(("m3", lab(self)))
@icontract.require(fpre)
def f(o):
    LOG.append(("f.begin",))
    o.m3()
    LOG.append(("f.end",))
"""


def check_foreign_finalisation(acc):
    import contextvars
    ns = core.fresh_ctx_run(core.load_source, FIN_SRC, "c12fin")
    try:
        K, LOG, HOOK = ns["K"], ns["LOG"], ns["HOOK"]
        for susp in ("body", "pre"):
            for how in ("close", "throw", "resume", "drop"):
                for where in ("m2.body:same", "m2.body:other", "f.pre", "top"):
                    for fin_ctx in ("current", "fresh", "own"):
                        for victim_ctx in ("main", "copied_before", "copied_after"):
                            def go():
                                HOOK.clear()
                                HOOK["susp"] = (susp,)
                                del LOG[:]
                                a, b = K("a"), K("b")
                                ctx_before = contextvars.copy_context()
                                own = contextvars.copy_context()
                                box = {"c": a.am()}
                                own.run(box["c"].send, None)  # now suspended in its precondition or its body, marks set in ``own``
                                ctx_after = contextvars.copy_context()
                                start = len(LOG)

                                def finalise():
                                    c_ref = [box["c"]]

                                    def act():
                                        try:
                                            if how == "close":
                                                c_ref[0].close()
                                            elif how == "throw":
                                                c_ref[0].throw(ns["Boom"]("thrown"))
                                            elif how == "resume":
                                                c_ref[0].send(None)
                                            else:
                                                # the last reference goes away: the garbage collector closes the coroutine right here
                                                box["c"] = None
                                                del c_ref[:]
                                                import gc
                                                gc.collect()
                                        except (ns["Boom"], StopIteration):
                                            pass
                                    LOG.append(("fin.begin",))
                                    if fin_ctx == "current":
                                        act()
                                    elif fin_ctx == "fresh":
                                        contextvars.Context().run(act)
                                    else:
                                        own.run(act)
                                    LOG.append(("fin.end",))

                                def victim():
                                    if where == "m2.body:same":
                                        HOOK["m2.body"] = finalise
                                        a.m2(b)
                                    elif where == "m2.body:other":
                                        HOOK["m2.body"] = finalise
                                        b.m2(a)
                                    elif where == "f.pre":
                                        HOOK["f.pre"] = finalise
                                        ns["f"](a)
                                    else:
                                        finalise()
                                    HOOK.pop("m2.body", None)
                                    HOOK.pop("f.pre", None)
                                    # afterwards everything is checked as usual in this context ...
                                    LOG.append(("later",))
                                    a.m3()
                                    b.m2(a)
                                vctx = {"main": None, "copied_before": ctx_before, "copied_after": ctx_after}[victim_ctx]
                                if vctx is None:
                                    victim()
                                else:
                                    vctx.run(victim)
                                # ... and in the coroutine's own context
                                LOG.append(("later_own",))
                                own.run(a.m3)
                                return list(LOG[start:])
                            try:
                                log = core.fresh_ctx_run(go)
                                err = None
                            except BaseException as e:  # noqa
                                log, err = [], e
                            # reference: what the victim and the later calls log when no coroutine exists at all (the events of the
                            # finalisation itself - between fin.begin and fin.end - are cut out on both sides)
                            def strip(lg):
                                out, depth = [], 0
                                for ev in lg:
                                    if ev == ("fin.begin",):
                                        depth += 1
                                    elif ev == ("fin.end",):
                                        depth -= 1
                                    elif depth == 0:
                                        out.append(ev)
                                return out
                            I = lambda n: ("inv", n)
                            m3 = lambda n, checked: ([I(n), ("m3", n), I(n)] if checked else [("m3", n)])
                            m2 = lambda x, y: [I(x), ("m2.begin", x)] + m3(x, False) + m3(y, True) + [("m2.end", x), I(x)]
                            # a copied_after context carries the mark of the suspended coroutine for ``a`` while the coroutine is alive;
                            # calls on ``a`` made there before the finalisation are legitimately nested - we only judge such scenarios
                            # after the finalisation ("later" part) unless the finalisation comes first
                            if where == "m2.body:same":
                                first = m2("a", "b")
                            elif where == "m2.body:other":
                                first = m2("b", "a")
                            elif where == "f.pre":
                                first = [("fpre",), ("f.begin",)] + m3("a", True) + [("f.end",)]
                            else:
                                first = []
                            later = [("later",)] + m3("a", True) + m2("b", "a") + [("later_own",)] + m3("a", True)
                            got = strip(log)
                            feats = {"part": "finalisation_elsewhere", "susp": susp, "how": how, "where": where, "fin_ctx": fin_ctx, "victim_ctx": victim_ctx}
                            acc.case(("fin", susp, how, where, fin_ctx, victim_ctx), True, len(log), "err" if err else "ok")
                            marked_before = victim_ctx == "copied_after" and where != "top"
                            want = first + later
                            bad = None
                            if err is not None:
                                bad = ("finalisation_scenario_raised", repr(err))
                            elif how == "resume" and fin_ctx != "own":
                                continue  # resuming a coroutine in another context than its own moves its marks: outside the property
                            elif marked_before:
                                # judge the part after ("later",) only
                                i = got.index(("later",)) if ("later",) in got else 0
                                if got[i:] != later:
                                    bad = ("checks_skipped_under_concurrency" if len(got[i:]) < len(later) else "verdict_depends_on_concurrent_call",
                                           "after the finalisation: expected {} got {}".format(later, got[i:]))
                            elif got != want:
                                bad = ("checks_skipped_under_concurrency" if len(got) < len(want) else "verdict_depends_on_concurrent_call",
                                       "expected {} got {}".format(want, got))
                            if bad:
                                acc.violation(core.Violation(PROP, bad[0], feats, "coroutine a.am() suspended in its {}, finalised by {} in the {} context at {} "
                                                             "(victim runs in {}): {}".format(susp, how, fin_ctx, where, victim_ctx, bad[1]),
                                                             spec={"finalisation": feats}, script=FIN_SRC))
        acc.sample({"part": "finalisation_elsewhere"}, cap=1)
    finally:
        core.unload_source(ns)


def work(chunk):
    acc = core.Acc()
    for sc, budget in chunk:
        if sc.get("engine") == "finalisation":
            check_foreign_finalisation(acc)
            continue
        if sc["engine"] == "tasks":
            check_task_scenario(sc, acc, budget)
        else:
            check_thread_scenario(sc, acc, budget)
    return acc.result()


def run(tier, t0):
    budget = 60000 if tier == "quick" else 1300000
    items = [(s, budget) for s in task_scenarios(tier)] + [(s, budget) for s in thread_scenarios(tier)]
    # heavy items first so that the pool balances
    items.sort(key=lambda it: (it[0]["engine"] == "threads" and it[0]["gran"] != "G1", len(it[0].get("susp", []))), reverse=True)
    items.append(({"engine": "finalisation"}, 0))
    tot = core.merge(core.pmap(work, items))
    capped = tot["extra"].get("capped_scenarios", 0)
    return core.finish(
        PROP, tier, tot, t0,
        rule="(tasks) {} call sets x 6 placements of suspension points (coroutine precondition / capture / postcondition / body) x 4 "
             "context modes (fresh contexts; contexts copied after the parent completed a checked call; after the parent's "
             "violating call; parent running contracted code as a further participant) - ALL interleavings of the ready queue; "
             "(threads) call sets x 3 context modes (empty, copy_context().run copied after / before the parent's first checked "
             "call) with iterative preemption bounding 0..2 at G1 = entries into user code, G2 = + every line of the wrapper "
             "frames, G3 = every line of any _checkers.py frame (bound 1). states = nodes of the schedule trees, transitions = "
             "scheduling steps; (finalisation elsewhere) a checked coroutine suspended in its async precondition / its body, started in a context of its own, is "
             "closed / thrown into / resumed / dropped (gc) at 4 places (inside the body of another checked method of the same instance, of another "
             "instance, inside a function's precondition, at top level) x finalising context (current, fresh, the coroutine's own) x context of the "
             "victim call (main, copied before / after the coroutine started): the victim's events and all later calls equal those without the "
             "coroutine; non-trivial = every complete schedule".format(len(TASK_CALLS) + (len(TASK_CALLS3) if tier == "thorough" else 0)),
        assumptions=["CPython scheduling explored at line granularity under the GIL; no weaker memory model exists in CPython",
                     "invariants depend only on a field no body modifies"],
        bounds={"scenarios": len(items), "max_participants": 2 if tier == "quick" else 3, "preemption_bound": 2,
                "schedule_budget_per_scenario": budget},
        exhaustive=(capped == 0),
    )


def replay(path):
    data = json.load(open(path))["spec"]
    acc = core.Acc()
    sc = data.get("scenario") or {"engine": "finalisation"}
    if sc["engine"] == "finalisation":
        check_foreign_finalisation(acc)
    elif sc["engine"] == "tasks":
        check_task_scenario(sc, acc, 400000)
    else:
        check_thread_scenario(sc, acc, 400000)
    for v in acc.violations[:5]:
        print("VIOLATION property={} replay={}".format(PROP, path))
        print(" ", v.symptom, v.detail[:500])
    return 1 if acc.violations else 0
