"""Generic driver for the properties decided on family F by comparing a projection of the real event log and
outcome with the reference interpreter (C02, C08, C16)."""
import json

from .. import core, fam


def check_spec(prop, spec, acc, roles, params, symptom_of, nontrivial_of, judge_outcome=True):
    """params(spec) -> iterable of (truth, body_mode, mut, shape)."""
    spec = fam.norm(spec)
    def_error = fam.effective(spec)[0]
    prog = fam.Program(spec)
    key0 = json.dumps(spec, sort_keys=True)
    try:
        if def_error is not None or prog.def_exc is not None:
            acc.case(("def", key0), nontrivial=True, events=1, outcome="def")
            got = type(prog.def_exc).__name__ if prog.def_exc is not None else None
            want = def_error[0] if def_error else None
            if got != want:
                acc.violation(core.Violation(
                    prop, "definition_time_mismatch", fam.feat(spec),
                    "expected at definition: {}, got: {!r}".format(want, prog.def_exc),
                    spec={"spec": spec}, script=fam.render(spec)))
            return
        for truth, body_mode, mut, shape in params(spec):
            log, outcome = prog.call(truth, body_mode, mut, shape)
            elog, eoutcome = fam.expected(spec, truth, body_mode, mut)
            plog, pelog = fam.project(log, roles), fam.project(elog, roles)
            acc.case((key0, tuple(sorted(truth.items())), body_mode, mut, shape),
                     nontrivial=nontrivial_of(spec, truth, body_mode, mut), events=len(log),
                     outcome=(eoutcome, len(pelog)))
            bad = None
            d = fam.first_diff(pelog, plog)
            if d is not None:
                bad = (symptom_of(d[1], d[2]), "event #{}: expected {} observed {}".format(*d))
            elif judge_outcome and outcome != eoutcome:
                bad = ("wrong_outcome", "expected outcome {} observed {}".format(eoutcome, outcome))
            if bad is None and outcome[0] == "exc":
                # history of length 2: the call ended with an error; the very same call made again in the same context
                # must be observed identically both times (nothing of the first call may linger)
                (l1, o1), (l2, o2) = prog.call_twice(truth, body_mode, mut, shape)
                acc.bump("repeated_in_same_context")
                if (fam.project(l1, roles), o1) != (plog, outcome) or (fam.project(l2, roles), o2) != (plog, outcome):
                    which = "first" if (fam.project(l1, roles), o1) != (plog, outcome) else "second"
                    bad = ("repeated_call_differs", "the call ends with {}; made twice in one context, the {} call was observed as {} -> {}".format(
                        outcome, which, fam.project(l2 if which == "second" else l1, roles), o2 if which == "second" else o1))
            if bad:
                acc.violation(core.Violation(
                    prop, bad[0], fam.feat(spec, shape, body_mode, mut),
                    "{}\n truth={}\n expected log={}\n observed log={}\n expected outcome={} observed={}".format(
                        bad[1], {k: v for k, v in truth.items() if not v}, pelog, plog, eoutcome, outcome),
                    spec={"spec": spec, "truth": truth, "body_mode": body_mode, "mut": mut, "shape": shape},
                    script=fam.replay_script(spec, truth, body_mode, mut, shape)))
        acc.sample({"spec": spec})
    finally:
        prog.close()


def replay(prop, path, roles, symptom_of, judge_outcome=True):
    data = json.load(open(path))["spec"]
    acc = core.Acc()
    one = [(data.get("truth", {}), data.get("body_mode", "ret_obj"), data.get("mut", "none"), data.get("shape", "pos"))]
    check_spec(prop, data["spec"], acc, roles, lambda s: one, symptom_of, lambda *a: True, judge_outcome)
    for v in acc.violations:
        print("VIOLATION property={} replay={}".format(prop, path))
        print(" ", v.symptom, v.detail[:800])
    if not acc.violations:
        print("no violation on replay")
    return 1 if acc.violations else 0
