"""C17 - defining a class or decorating a function never changes another's contracts.

History exploration over definition sequences: after a contracted root every sequence of <= d definition steps
(subclass of one or two existing classes in either order / unrelated DBC class / decorated module-level function,
each with every choice of invariant check_on and member contracts) is replayed on a fresh namespace; before and
after the LAST step every earlier class and function is observed (introspection lists and probe-call verdicts under
all-true and each-single-falsy tables, including the conditions the new step introduces) and must be unchanged."""
import itertools
import json

from .. import core

PROP = "C17"

HDR = '''\
import icontract
LOG = []
T = {}
def _t(n):
    LOG.append(n)
    return T.get(n, True)
def RAW(x=1):
    return x
def HELPER(self, x=1):
    return x
'''

INV = {"-": None, "C": "icontract.InvariantCheckEvent.CALL", "S": "icontract.InvariantCheckEvent.SETATTR", "A": "icontract.InvariantCheckEvent.ALL"}
MEMBER_OPTS = ["-", "bare", "pre", "post", "prepostsnap"]
PROP_OPTS = ["-", "post", "extset"]


def render_step(i, step):
    """step = {"op": "class", "bases": [...], "inv": "C"/"S"/"A"/"-"/"CS"..., "m": opt, "p": opt} | {"op": "func", "c": opt}"""
    name = "X{}".format(i)
    w = []
    if step["op"] == "redecorate":
        # the SAME undecorated function object is decorated once more; the result is a new contracted function
        w.append("def p_g{0}(x):\n    return _t('p_g{0}')\ndef q_g{0}(result):\n    return _t('q_g{0}')\n".format(i))
        w.append("g{0} = icontract.require(p_g{0})(RAW)\n".format(i))
        return "".join(w)
    if step["op"] == "postdecorate":
        # the method m that an EXISTING class defines itself is decorated once more after the class has been created
        w.append("def p_g{0}(x):\n    return _t('p_g{0}')\ndef q_g{0}(result):\n    return _t('q_g{0}')\n".format(i))
        deco = "icontract.require(p_g{0})".format(i) if step["c"] == "pre" else "icontract.ensure(q_g{0})".format(i)
        w.append("{1}.m = {2}(vars({1})['m'])\n".format(i, step["target"], deco))
        return "".join(w)
    if step["op"] == "func":
        w.append("def p_g{0}(x):\n    return _t('p_g{0}')\n".format(i))
        w.append("def q_g{0}(result):\n    return _t('q_g{0}')\n".format(i))
        decos = {"pre": "@icontract.require(p_g{0})\n", "post": "@icontract.ensure(q_g{0})\n",
                 "prepostsnap": "@icontract.snapshot(lambda x: x, name='s')\n@icontract.require(p_g{0})\n@icontract.ensure(q_g{0})\n"}[step["c"]]
        w.append(decos.format(i) + "def g{}(x=1):\n    return x\n".format(i))
        return "".join(w)
    for k, ch in enumerate(step["inv"].replace("-", "")):
        w.append("def v{1}_{0}(self):\n    return _t('v{1}_{0}')\n".format(name, k))
    w.append("def p_{0}(x):\n    return _t('p_{0}')\ndef q_{0}(result):\n    return _t('q_{0}')\ndef pp_{0}(self):\n    return _t('pp_{0}')\ndef p2_{0}(x):\n    return _t('p2_{0}')\ndef pq_{0}(self):\n    return _t('pq_{0}')\n".format(name))
    for k, ch in reversed(list(enumerate(step["inv"].replace("-", "")))):
        w.append("@icontract.invariant(v{1}_{0}, check_on={2})\n".format(name, k, INV[ch]))
    bases = ", ".join(step["bases"]) if step["bases"] else "icontract.DBC"
    w.append("class {}({}):\n".format(name, bases))
    body = []
    if not step["bases"]:
        body.append("    def __init__(self):\n        self.a = 1\n")
        # a second contracted method (taken over under ANOTHER name by the 'alias_m2' option of later classes)
        body.append("    @icontract.require(p2_{0})\n    def m2(self, x=1):\n        return x\n".format(name))
        # ... and a second contracted property (taken over under the name p by the 'alias_p2' option of later classes)
        body.append("    @property\n    @icontract.ensure(pq_{0})\n    def p2(self):\n        return 2\n".format(name))
        if i > 0:
            # a further root also has a contracted property r, which X0 lacks (taken over as  r = X0.p2  by the 'alias_r' option)
            body.append("    @property\n    @icontract.ensure(lambda self, result: pq_{0}(self))\n    def r(self):\n        return 3\n".format(name))
    m = step["m"]
    if m == "alias_m2":
        # the root's OTHER method taken over under the name m, which the bases define with contracts of their own
        body.append("    m = X0.m2\n")
    elif m.startswith("alias@"):
        # the implementation of ANY earlier class that defines m itself (lattice family)
        body.append("    m = {}.m\n".format(m.split("@")[1]))
    elif m == "alias":
        # pick the root's implementation explicitly (the idiom to resolve a multiple inheritance): the very function object of X0
        body.append("    m = X0.m\n")
    elif m == "alias_pget":
        # cross-kind: the getter of the root's second property taken over as the method m
        body.append("    m = X0.p2.fget\n")
    elif m == "helper":
        # one shared helper function used as the method of several classes
        body.append("    m = HELPER\n")
    elif m != "-":
        d = {"bare": "", "pre": "    @icontract.require(p_{0})\n", "post": "    @icontract.ensure(q_{0})\n",
             "prepostsnap": "    @icontract.snapshot(lambda x: x, name='s_{0}')\n    @icontract.require(p_{0})\n    @icontract.ensure(q_{0})\n"}[m].format(name)
        body.append(d + "    def m(self, x=1):\n        return x\n")
    if step.get("p", "-") == "extset_root":
        # extend the property of the ROOT class with a setter, whatever the bases of this class are: the getter is the root's
        # function although another base may carry further contracts for the getter
        body.append("    @X0.p.setter\n    def p(self, value):\n        pass\n")
    elif step.get("p", "-").startswith("extset@"):
        body.append("    @{}.p.setter\n    def p(self, value):\n        pass\n".format(step["p"].split("@")[1]))
    elif step.get("p", "-") == "alias_r":
        # the root's second property under a name which the root itself lacks but another base defines (with contracts)
        body.append("    r = X0.p2\n")
    elif step.get("p", "-") == "alias_p2":
        # the root's OTHER property taken over under the name p, which the bases define with contracts of their own
        body.append("    p = X0.p2\n")
    elif step.get("p", "-") == "prop_of_m2":
        # cross-kind: the root's second method taken over as the getter of p
        body.append("    p = property(X0.m2)\n")
    elif step.get("p", "-") == "extset":
        # extend the INHERITED property with a setter only; getter (and its contracts) stay the base's
        body.append("    @{}.p.setter\n    def p(self, value):\n        pass\n".format(step["bases"][0] if step["bases"] else "object"))
    elif step.get("p", "-") != "-":
        body.append("    @property\n    @icontract.ensure(pp_{0})\n    def p(self):\n        return 1\n".format(name).replace(
            "@icontract.ensure(pp_{0})".format(name), "@icontract.ensure(lambda self, result: pp_{0}(self))".format(name)))
    if not body:
        body.append("    pass\n")
    w.append("".join(body))
    return "".join(w)


def build(history):
    """Replay a definition history on a fresh namespace; returns ns or raises (invalid history, e.g. MRO conflict)."""
    ns = core.load_source(HDR, "c17")
    for i, step in enumerate(history):
        exec(compile(render_step(i, step), ns["__file__"] + "#{}".format(i), "exec"), ns)
    return ns


def cond_names(history):
    names = []
    for i, step in enumerate(history):
        if step["op"] in ("func", "redecorate", "postdecorate"):
            names += ["p_g{}".format(i), "q_g{}".format(i)]
        else:
            n = "X{}".format(i)
            names += ["v{}_{}".format(k, n) for k in range(len(step["inv"].replace("-", "")))] + ["p_" + n, "q_" + n, "pp_" + n, "p2_" + n, "pq_" + n]
    return names


def observe(ns, history, upto, names):
    """Observation of the first ``upto`` definitions: introspection lists (by condition name) and probe verdicts."""
    import icontract

    obs = {}
    for i in range(upto):
        step = history[i]
        if step["op"] == "postdecorate":
            continue
        if step["op"] in ("func", "redecorate"):
            g = ns["g{}".format(i)]
            chk = icontract._checkers.find_checker(g)
            lists = ([[c.condition.__name__ for c in grp] for grp in chk.__preconditions__],
                     [c.condition.__name__ for c in chk.__postconditions__], [s.name for s in chk.__postcondition_snapshots__])
            probes = []
            for falsy in [None] + names:
                ns["T"].clear()
                if falsy:
                    ns["T"][falsy] = False
                del ns["LOG"][:]
                try:
                    g()
                    out = "ret"
                except Exception as e:
                    out = type(e).__name__
                probes.append((falsy, tuple(ns["LOG"]), out))
            obs["g{}".format(i)] = (lists, probes)
            continue
        cls = ns["X{}".format(i)]
        lists = {}
        for attr in ("__invariants__", "__invariants_on_call__", "__invariants_on_setattr__"):
            lists[attr] = [c.condition.__name__ for c in getattr(cls, attr, [])]
            lists[attr + "#own"] = attr in vars(cls)
        for member in ("m", "p", "m2", "p2"):
            raw = None
            for k in cls.__mro__:
                if member in vars(k):
                    raw = vars(k)[member]
                    break
            fn = raw.fget if isinstance(raw, property) else raw
            if fn is not None:
                chk = icontract._checkers.find_checker(fn)
                if chk is not None:
                    lists[member] = ([[getattr(c.condition, "__name__", "?") for c in grp] for grp in chk.__preconditions__],
                                     [getattr(c.condition, "__name__", "?") for c in chk.__postconditions__],
                                     [s.name for s in chk.__postcondition_snapshots__])
                else:
                    lists[member] = "no-checker"
        lists["own_members"] = sorted(n for n in vars(cls) if not n.startswith("_"))
        probes = []
        for falsy in [None] + names:
            ns["T"].clear()
            if falsy:
                ns["T"][falsy] = False
            del ns["LOG"][:]
            res = []
            try:
                o = cls()
                res.append("init:ok")
            except Exception as e:
                o = None
                res.append("init:" + type(e).__name__)
            if o is not None:
                for label, fn in (("m", lambda: o.m(1)), ("m2", lambda: o.m2(1)), ("p", lambda: o.p), ("p2", lambda: o.p2), ("set", lambda: setattr(o, "a", 2))):
                    if label in ("m", "m2", "p", "p2") and not hasattr(cls, label):
                        continue
                    try:
                        fn()
                        res.append(label + ":ok")
                    except Exception as e:
                        res.append(label + ":" + type(e).__name__)
            probes.append((falsy, tuple(ns["LOG"]), tuple(res)))
        obs["X{}".format(i)] = (lists, probes)
    return obs


def steps_for(existing, tier):
    """All definition steps possible given the names of the existing classes. ``tier`` names the alphabet:
    quick = small alphabet, thorough = full alphabet."""
    out = []
    inv_opts = {"quick": ["-", "C", "S", "A"], "tiny": ["-", "C", "S"]}.get(tier, ["-", "C", "S", "A", "CS", "SA"])
    m_opts = {"quick": ["-", "pre", "post", "prepostsnap", "helper", "alias", "alias_m2", "alias_pget"], "tiny": ["-", "pre", "prepostsnap"]}.get(
        tier, ["-", "bare", "pre", "post", "prepostsnap", "helper", "alias", "alias_m2", "alias_pget"])
    base_choices = [[]] + [[c] for c in existing] + [[a, b] for a, b in itertools.permutations(existing, 2)]
    for bases in base_choices:
        for inv in inv_opts:
            for m in m_opts:
                if (m == "alias" and (not bases or bases == ["X0"])) or (m in ("alias_m2", "alias_pget") and not bases):
                    continue  # taking over X0.m is only interesting below another class that re-defines m
                for p in (["-", "extset", "extset_root", "alias_p2", "prop_of_m2", "post"] if tier == "quick" else (["-"] if tier == "tiny" else PROP_OPTS + ["extset_root", "alias_p2", "prop_of_m2"])):
                    if p in ("extset", "extset_root", "alias_p2", "prop_of_m2") and (not bases or m != "-" or inv not in ("-", "C")):
                        continue
                    if p == "extset_root" and bases == ["X0"]:
                        continue  # the same as extset
                    if p == "post" and tier == "quick" and (m != "-" or inv != "-"):
                        continue
                    out.append({"op": "class", "bases": bases, "inv": inv, "m": m, "p": p})
    for c in (["pre"] if tier in ("quick", "tiny") else ["pre", "prepostsnap"]):
        out.append({"op": "func", "c": c})
    out.append({"op": "redecorate"})
    return out


def postdecorate_steps(hist):
    """Decorating, after the fact, the method m of an existing class that defines m itself."""
    out = []
    for i, s in enumerate(hist):
        if s["op"] == "class" and s.get("m") in ("bare", "pre", "post", "prepostsnap"):
            for c in ("pre", "post"):
                out.append({"op": "postdecorate", "target": "X{}".format(i), "c": c})
    return out


def affected_by(history, step):
    """The classes a post-hoc decoration may legitimately change: the target and its descendants."""
    if step["op"] != "postdecorate":
        return set()
    hit = {step["target"]}
    for i, s in enumerate(history):
        if s["op"] == "class" and any(b in hit for b in s["bases"]):
            hit.add("X{}".format(i))
    return hit


def roots(tier):
    out = []
    for inv in {"quick": ("C", "S", "A", "CS"), "tiny": ("C", "CS")}.get(tier, ("C", "S", "A", "CS", "SC", "-")):
        out.append({"op": "class", "bases": [], "inv": inv, "m": "prepostsnap", "p": "post"})
    return out


def check_history(history, acc, tier):
    """Judge the LAST step of ``history`` (all prefixes are judged as histories of their own)."""
    key = json.dumps(history, sort_keys=True)
    k = len(history) - 1
    names_before = cond_names(history[:k])
    names_after = cond_names(history)
    new_names = [n for n in names_after if n not in names_before]

    def go():
        try:
            ns = build(history[:k])
        except Exception:
            return "invalid", None, None
        before = observe(ns, history, k, names_before)
        try:
            exec(compile(render_step(k, history[k]), ns["__file__"] + "#{}".format(k), "exec"), ns)
        except TypeError as e:
            # Python (MRO conflict) or icontract (weakening without base preconditions) rejected the definition;
            # a rejected definition must not have changed anything either
            after = observe(ns, history, k, names_before)
            return "rejected", before, after
        except Exception as e:
            after = observe(ns, history, k, names_before)
            return "rejected:" + type(e).__name__, before, after
        after = observe(ns, history, k, names_after)
        return "ok", before, after
    status, before, after = core.fresh_ctx_run(go)
    if status == "invalid":
        return False
    step = history[k]
    feats = {"depth": len(history), "op": step["op"], "nbases": len(step.get("bases", [])), "inv": step.get("inv"), "m": step.get("m"),
             "p": step.get("p"), "status": status,
             "root_inv": history[0].get("inv"), "bases_inv": "/".join(history[int(b[1:])].get("inv", "-") for b in step.get("bases", []))}
    src_cls = "X0"
    for fld in ("m", "p"):
        if "@" in str(step.get(fld)):
            src_cls = step[fld].split("@")[1]
            feats[fld] = step[fld].split("@")[0] + "@"
            feats["lattice"] = True
    if step.get("p") in ("extset_root", "alias_p2", "prop_of_m2", "alias_r") or step.get("m") in ("alias", "alias_m2", "alias_pget") or feats.get("lattice"):
        # (the feature names say "root"; in the lattice family they mean the class whose member is re-used)
        feats["reuses_root_member"] = True
        anc, todo = set(), list(step.get("bases", []))
        while todo:
            b = todo.pop()
            if b not in anc:
                anc.add(b)
                todo += history[int(b[1:])].get("bases", [])
        feats["root_is_ancestor"] = src_cls in anc
    nev = sum(len(v[1]) for v in after.values())
    acc.case(key, True, nev, status)
    spared = affected_by(history[:k], step)
    for name in before:
        if name in spared:
            continue
        lb, pb = before[name]
        la, pa = after[name]
        if lb != la:
            diff = [k2 for k2 in lb if lb[k2] != la.get(k2)] if isinstance(lb, dict) else ["lists"]
            acc.violation(core.Violation(PROP, "introspection_lists_changed", dict(feats, victim_is_base=name in step.get("bases", []), what=",".join(map(str, diff))),
                                         "step {} changed the contract lists of the earlier {}: {}\n before {}\n after  {}".format(
                                             step, name, diff, {d: lb[d] for d in diff} if isinstance(lb, dict) else lb, {d: la.get(d) for d in diff} if isinstance(la, dict) else la),
                                         spec={"history": history}, script=HDR + "".join(render_step(i, s) for i, s in enumerate(history))))
            return True
        pa_old = [p for p in pa if p[0] is None or p[0] in names_before]
        if pa_old != pb:
            d = next((a, b) for a, b in zip(pb, pa_old) if a != b)
            acc.violation(core.Violation(PROP, "probe_verdict_changed", dict(feats, victim_is_base=name in step.get("bases", [])),
                                         "step {} changed the behaviour of the earlier {}: probe (falsy, evaluated, results) before {} after {}".format(
                                             step, name, d[0], d[1]),
                                         spec={"history": history}, script=HDR + "".join(render_step(i, s) for i, s in enumerate(history))))
            return True
        alltrue = next(p for p in pa if p[0] is None)
        for p in pa:
            if p[0] in new_names and (p[1], p[2]) != (alltrue[1], alltrue[2]):
                acc.violation(core.Violation(PROP, "new_contract_leaked_into_earlier_definition", dict(feats, victim_is_base=name in step.get("bases", [])),
                                             "condition {} introduced by step {} influences the earlier {}: all-true {} vs with it falsy {}".format(
                                                 p[0], step, name, alltrue[1:], p[1:]),
                                             spec={"history": history}, script=HDR + "".join(render_step(i, s) for i, s in enumerate(history))))
                return True
    return True


def lattice_histories():
    """Two contracted roots (X0, X1: each defines m and the property p with contracts of its own), two contract-less
    intermediate classes over every choice of one or two (ordered) earlier classes as bases, and a final class over every
    such choice which takes over m (m = Xk.m) or extends p (@Xk.p.setter) of either root."""
    root0 = {"op": "class", "bases": [], "inv": "C", "m": "prepostsnap", "p": "post"}
    root1 = {"op": "class", "bases": [], "inv": "-", "m": "prepostsnap", "p": "post"}

    def base_choices(existing):
        return [[c] for c in existing] + [[a, b] for a, b in itertools.permutations(existing, 2)]
    for b2 in base_choices(["X0", "X1"]):
        for b3 in base_choices(["X0", "X1", "X2"]):
            mid = [{"op": "class", "bases": b2, "inv": "-", "m": "-", "p": "-"}, {"op": "class", "bases": b3, "inv": "-", "m": "-", "p": "-"}]
            for b4 in base_choices(["X0", "X1", "X2", "X3"]):
                for k in ("X0", "X1"):
                    yield [root0, root1] + mid + [{"op": "class", "bases": b4, "inv": "-", "m": "alias@" + k, "p": "-"}]
                    yield [root0, root1] + mid + [{"op": "class", "bases": b4, "inv": "-", "m": "-", "p": "extset@" + k}]
                yield [root0, root1] + mid + [{"op": "class", "bases": b4, "inv": "-", "m": "-", "p": "alias_r"}]


def check_lattice(acc, part, nparts):
    n = 0
    for i, hist in enumerate(lattice_histories()):
        if i % nparts != part:
            continue
        if check_history(hist, acc, "lattice"):
            n += 1
    acc.bump("lattice_histories_valid", n)
    acc.sample({"part": "lattice", "example_history": hist}, cap=1)


def work(args):
    acc = core.Acc()
    for root, depth, tier in args:
        # breadth-first over histories starting with this root
        frontier = [[root]]
        for d in range(depth):
            nxt = []
            for hist in frontier:
                existing = ["X{}".format(i) for i, s in enumerate(hist) if s["op"] == "class"]
                for step in steps_for(existing, tier) + postdecorate_steps(hist):
                    h2 = hist + [step]
                    valid = check_history(h2, acc, tier)
                    if valid and acc.nviol < 200:
                        nxt.append(h2)
            frontier = nxt
            acc.bump("histories_depth_{}".format(d + 1), len(nxt))
        acc.sample({"root": root, "example_history": frontier[0] if frontier else None}, cap=1)
    return acc.result()


def run(tier, t0):
    # quick: depth 2 over the small alphabet. thorough: depth 2 over the full alphabet plus depth 3 over a tiny one.
    plans = [("quick", 2)] if tier == "quick" else [("thorough", 2), ("tiny", 3)]
    fine = []
    for alpha, depth in plans:
        for root in roots(alpha):
            for step in steps_for(["X0"], alpha) + postdecorate_steps([root]):
                fine.append((root, step, depth, alpha))
    # interleave heavy (depth 3) and light items so that the pool balances
    fine.sort(key=lambda it: json.dumps(it[1], sort_keys=True))
    fine.append("accessor_postdecoration")
    fine += [("lattice", i, 16) for i in range(16)]
    fine.append("clone")
    tot = core.merge(core.pmap(work_fine, fine))
    return core.finish(
        PROP, tier, tot, t0,
        rule="definition histories: contracted root class (invariant check_on in several combinations, method with pre/post/"
             "snapshot, property with postcondition) followed by every sequence of definition steps from: class with bases = DBC | "
             "one existing class | two existing classes in either order, invariant check_on, method contracts, property contracts; "
             "decorated module-level function; decorating once more, after the fact, the method m of an existing class that defines it "
             "(the target and its descendants may change, nobody else). Plans (alphabet, depth after root): {}. tiny alphabet: invariant in {{none, CALL, SETATTR}} x method in {{absent, pre, "
             "pre+post+snapshot}}; small (quick) alphabet: invariant in {{none, CALL, "
             "SETATTR, ALL}} x method in {{absent, pre, post, pre+post+snapshot, a shared helper function, m = X0.m (the root's function taken over)}}; every alphabet also "
             "re-decorates one shared plain function; full alphabet adds CALL+SETATTR, SETATTR+ALL, bare and "
             "pre+post+snapshot methods, properties. Every history is replayed on a fresh namespace; before/after the last step "
             "all earlier definitions are observed (names in __invariants__/_on_call__/_on_setattr__ and whether the class owns "
             "the list, checker lists of m and p, own members; probe construct/m/p/setattr under all-true and each-single-falsy "
             "tables incl. the newly introduced conditions). Histories Python or icontract reject at the last step are checked "
             "for having changed nothing; plus the accessors of a property (re-defined / setter extended / getter extended in a sub-class, 3 x 3 styles of "
             "target and sibling) decorated once more after the fact with a pre- or postcondition: base and sibling keep lists and verdicts; "
             "a root class created once more from its own namespace (4 invariant settings) and then given an invariant (3 check_on) or a sub-class with one: the original stays as it was; "
             "non-trivial = every valid history".format(plans),
        assumptions=["subclassing without the DBC base is documented as leaking and excluded",
                     "no state merging: every history is executed (states = histories)"],
        bounds={"plans": [list(p) for p in plans]},
    )

# ---------------------------------------------------------------------------------------------
# property accessors decorated once more after the classes exist: the base and the siblings must stay as they were

ACC_SRC = '''\
import icontract
T = {}
def _t(n):
    return T.get(n, True)
def g_B(self):
    return _t("g_B")
def s_B(self, value):
    return _t("s_B")
def q_B(self, result):
    return _t("q_B")
def new_pre(self):
    return _t("new_pre")
def new_pre_set(self, value):
    return _t("new_pre_set")
def new_post(self, result):
    return _t("new_post")
class Base(icontract.DBC):
    @property
    @icontract.require(g_B)
    @icontract.ensure(q_B)
    def p(self):
        return 1
    @p.setter
    @icontract.require(s_B)
    def p(self, value):
        pass
{subs}
'''
ACC_STYLES = {
    "override": "class {0}(Base):\n    @property\n    def p(self):\n        return 2\n    @p.setter\n    def p(self, value):\n        pass\n",
    "extend_setter": "class {0}(Base):\n    @Base.p.setter\n    def p(self, value):\n        pass\n",
    "extend_getter": "class {0}(Base):\n    @Base.p.getter\n    def p(self):\n        return 2\n",
}
ACC_DECOS = {
    ("fset", "pre"): "icontract.require(new_pre_set)(vars(Sub)['p'].fset)",
    ("fget", "pre"): "icontract.require(new_pre)(vars(Sub)['p'].fget)",
    ("fget", "post"): "icontract.ensure(new_post)(vars(Sub)['p'].fget)",
}
ACC_NAMES = ["g_B", "s_B", "q_B", "new_pre", "new_pre_set", "new_post"]


def check_accessor_postdecoration(acc):
    import icontract

    def observe(ns, names):
        out = {}
        for cname in names:
            cls = ns[cname]
            prop = None
            for k in cls.__mro__:
                if "p" in vars(k):
                    prop = vars(k)["p"]
                    break
            lists = {}
            for accname in ("fget", "fset"):
                chk = icontract._checkers.find_checker(getattr(prop, accname))
                lists[accname] = None if chk is None else (
                    [[c.condition.__name__ for c in grp] for grp in chk.__preconditions__], [c.condition.__name__ for c in chk.__postconditions__])
            probes = []
            for falsy in [None] + ACC_NAMES:
                ns["T"].clear()
                if falsy:
                    ns["T"][falsy] = False
                res = []
                o = cls()
                for label, fn in (("get", lambda: o.p), ("set", lambda: setattr(o, "p", 1))):
                    try:
                        fn()
                        res.append(label + ":ok")
                    except Exception as e:
                        res.append(label + ":" + type(e).__name__)
                probes.append((falsy, tuple(res)))
            ns["T"].clear()
            out[cname] = (lists, probes)
        return out

    for style, tmpl in sorted(ACC_STYLES.items()):
        for sib_style, sib_tmpl in sorted(ACC_STYLES.items()):
            for (accname, kind), deco in sorted(ACC_DECOS.items()):
                if (style == "extend_setter" and accname != "fset") or (style == "extend_getter" and accname != "fget"):
                    continue  # that accessor of Sub IS the function of the base: decorating it decorates the base, legitimately
                src = ACC_SRC.replace("{subs}", tmpl.format("Sub") + sib_tmpl.format("Sib"))
                ns = core.load_source(src, "c17a")
                try:
                    before = observe(ns, ["Base", "Sib"])
                    applied = "ok"
                    try:
                        exec(compile(deco, ns["__file__"] + "#post", "eval"), ns)
                    except Exception as e:
                        applied = type(e).__name__
                    after = observe(ns, ["Base", "Sib"])
                    acc.case(("accessor_postdecoration", style, sib_style, accname, kind), True, len(ACC_NAMES) * 4, applied)
                    for cname in ("Base", "Sib"):
                        if before[cname] != after[cname]:
                            what = "introspection_lists_changed" if before[cname][0] != after[cname][0] else "verdicts_changed"
                            acc.violation(core.Violation(
                                PROP, what, {"family": "accessor_postdecoration", "style": style, "sibling_style": sib_style, "accessor": accname, "kind": kind, "changed": cname},
                                "decorating {} of the property of Sub ({}) once more with a {}condition changed {} ({}): before {} after {}".format(
                                    accname, style, kind, cname, "the base" if cname == "Base" else "a sibling, " + sib_style, before[cname], after[cname]),
                                spec={"accessor_postdecoration": [style, sib_style, accname, kind]}, script=src + "\n" + deco + "\n"))
                            break
                finally:
                    core.unload_source(ns)
    acc.sample({"family": "accessor_postdecoration", "styles": sorted(ACC_STYLES), "decorations": [list(k) for k in sorted(ACC_DECOS)]}, cap=1)

# ---------------------------------------------------------------------------------------------
# a class created a second time from the namespace of an existing one (as dataclass(slots=True) does, or a copying class factory):
# whatever is added to the copy afterwards must not reach the original

CLONE_SRC = '''\
import icontract
T = {}
def _t(n):
    return T.get(n, True)
def v_A(self):
    return _t("v_A")
def v_new(self):
    return _t("v_new")
def p_A(self):
    return _t("p_A")
def p_new(self):
    return _t("p_new")
{deco}
class A(icontract.DBC):
    def __init__(self):
        self.x = 1
    @icontract.require(p_A)
    def m(self):
        return 1
A2 = type(A)("A2", A.__bases__, {{k: v for k, v in vars(A).items() if k not in ("__dict__", "__weakref__")}})
'''
CLONE_DECOS = {"C": "@icontract.invariant(v_A)", "S": "@icontract.invariant(v_A, check_on=icontract.InvariantCheckEvent.SETATTR)",
               "A": "@icontract.invariant(v_A, check_on=icontract.InvariantCheckEvent.ALL)", "-": ""}
CLONE_STEPS = {
    "inv_call": "icontract.invariant(v_new)(A2)",
    "inv_setattr": "icontract.invariant(v_new, check_on=icontract.InvariantCheckEvent.SETATTR)(A2)",
    "inv_all": "icontract.invariant(v_new, check_on=icontract.InvariantCheckEvent.ALL)(A2)",
    "subclass_with_invariant": "icontract.invariant(v_new, check_on=icontract.InvariantCheckEvent.ALL)(type(A)('B2', (A2,), {}))",
}


def check_clone(acc):
    def observe(ns):
        A = ns["A"]
        lists = {attr: [c.condition.__name__ for c in getattr(A, attr, [])] for attr in ("__invariants__", "__invariants_on_call__", "__invariants_on_setattr__")}
        probes = []
        for falsy in (None, "v_A", "v_new", "p_A", "p_new"):
            ns["T"].clear()
            if falsy:
                ns["T"][falsy] = False
            res = []
            try:
                o = A()
                res.append("init:ok")
            except Exception as e:
                o = None
                res.append("init:" + type(e).__name__)
            if o is not None:
                for label, fn in (("m", lambda: o.m()), ("set", lambda: setattr(o, "x", 2))):
                    try:
                        fn()
                        res.append(label + ":ok")
                    except Exception as e:
                        res.append(label + ":" + type(e).__name__)
            probes.append((falsy, tuple(res)))
        ns["T"].clear()
        return lists, probes

    for dk, deco in sorted(CLONE_DECOS.items()):
        for sk, step in sorted(CLONE_STEPS.items()):
            src = CLONE_SRC.replace("{deco}", deco).replace("{{", "{").replace("}}", "}")
            ns = core.load_source(src, "c17c")
            try:
                before = observe(ns)
                applied = "ok"
                try:
                    exec(compile(step, ns["__file__"] + "#step", "eval"), ns)
                except Exception as e:
                    applied = type(e).__name__
                after = observe(ns)
                acc.case(("clone", dk, sk), True, 10, applied)
                if before != after:
                    what = "introspection_lists_changed" if before[0] != after[0] else "verdicts_changed"
                    acc.violation(core.Violation(PROP, what, {"family": "clone", "original_invariant": dk, "step": sk},
                                                 "after the class A was created once more from its namespace (A2), '{}' changed the ORIGINAL class: before {} "
                                                 "after {}".format(step, before, after), spec={"clone": [dk, sk]}, script=src + step + "\n"))
            finally:
                core.unload_source(ns)
    acc.sample({"family": "clone", "steps": sorted(CLONE_STEPS)}, cap=1)


def work_fine(args):
    acc = core.Acc()
    if any(a == "accessor_postdecoration" for a in args):
        check_accessor_postdecoration(acc)
        args = [a for a in args if a != "accessor_postdecoration"]
    if any(a == "clone" for a in args):
        check_clone(acc)
        args = [a for a in args if a != "clone"]
    for a in [a for a in args if a[0] == "lattice"]:
        check_lattice(acc, a[1], a[2])
    args = [a for a in args if a[0] != "lattice"]
    for root, first, depth, tier in args:
        h1 = [root, first]
        valid = check_history(h1, acc, tier)
        frontier = [h1] if valid else []
        acc.bump("histories_depth_1", len(frontier))
        for d in range(1, depth):
            nxt = []
            for hist in frontier:
                existing = ["X{}".format(i) for i, s in enumerate(hist) if s["op"] == "class"]
                for step in steps_for(existing, tier) + postdecorate_steps(hist):
                    h2 = hist + [step]
                    if check_history(h2, acc, tier) and acc.nviol < 100:
                        nxt.append(h2)
            frontier = nxt
            acc.bump("histories_depth_{}".format(d + 1), len(nxt))
        acc.sample({"example_history": frontier[0] if frontier else h1}, cap=1)
    return acc.result()


def replay(path):
    data = json.load(open(path))["spec"]
    acc = core.Acc()
    if "clone" in data:
        check_clone(acc)
    elif "accessor_postdecoration" in data:
        check_accessor_postdecoration(acc)
    else:
        check_history(data["history"], acc, "thorough")
    for v in acc.violations[:5]:
        print("VIOLATION property={} replay={}".format(PROP, path))
        print(" ", v.symptom, v.detail[:600])
    return 1 if acc.violations else 0
