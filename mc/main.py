"""Entry point: ./check <ID> --tier quick|thorough [--replay file]"""
import argparse
import importlib
import os
import sys
import time


def main():
    ap = argparse.ArgumentParser()
    ap.add_argument("prop")
    ap.add_argument("--tier", default=os.environ.get("VERIF_TIER", "quick"), choices=["quick", "thorough"])
    ap.add_argument("--replay", default=None)
    args = ap.parse_args()
    from . import core

    core.bind_repo()
    mod = importlib.import_module("mc.props." + args.prop.lower())
    t0 = time.time()
    if args.replay:
        sys.exit(mod.replay(args.replay))
    sys.exit(mod.run(args.tier, t0))


if __name__ == "__main__":
    main()
