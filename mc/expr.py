"""Typed expression grammar, CPython recorder and violation-message parser shared by C06, C07 and C20.

Expressions are generated as *text*; CPython itself is the oracle: the same text is re-parsed, every sub-expression
node is wrapped in a recorder call (evaluation semantics unchanged, short-circuiting intact) and evaluated once with
the same bindings, which yields for every node whether CPython evaluated it and every value it took."""
import ast
import builtins
import inspect
import itertools
import re

# ---------------------------------------------------------------------------------------------
# environment: the parameters of every generated contracted function and four valuations


class Obj:
    """An object with an int attribute, a list attribute and a few methods (used as parameter ``o``)."""

    def __init__(self, v, items):
        self.v = v
        self.items = items

    def m(self, a):
        return self.v + a

    def k(self, a=0, b=1):
        return a * 10 + b

    def get(self, key):
        return {"a": 1, "k": 0}.get(key)

    def __repr__(self):
        return "Obj({!r}, {!r})".format(self.v, self.items)


PARAMS = ["x", "y", "xs", "s", "d", "o", "n", "b", "id"]


def valuations():
    return [
        {"x": 0, "y": 3, "xs": [], "s": "", "d": {}, "o": Obj(0, []), "n": None, "b": False, "id": 4},
        {"x": 3, "y": 0, "xs": [1, 2], "s": "ab", "d": {"a": 1}, "o": Obj(2, [3]), "n": 5, "b": True, "id": 0},
        {"x": -2, "y": -2, "xs": [3, -1, 0], "s": "k", "d": {"k": 0, "a": 2}, "o": Obj(-1, [0, 0]), "n": 0, "b": True, "id": 7},
        {"x": 1, "y": 2, "xs": [0], "s": "a", "d": {"a": 0}, "o": Obj(1, [1, 2, 3]), "n": 1, "b": False, "id": 1},
    ]


class AnyEq:
    """Compares equal to everything (like unittest.mock.ANY)."""
    def __eq__(self, other): return True
    def __ne__(self, other): return False
    def __hash__(self): return 1
    def __repr__(self): return "AnyEq()"


class NoTruth:
    """The result of an element-wise comparison: it has no truth value."""
    def __bool__(self): raise ValueError("The truth value is ambiguous")
    def __repr__(self): return "NoTruth()"


class Elementwise:
    """Compares element-wise (like a numpy array): == gives an object without a truth value."""
    def __eq__(self, other): return NoTruth()
    def __ne__(self, other): return NoTruth()
    def __hash__(self): return 2
    def __repr__(self): return "Elementwise()"


class NeverEq:
    """Not even equal to itself."""
    def __eq__(self, other): return False
    def __ne__(self, other): return True
    def __hash__(self): return 3
    def __repr__(self): return "NeverEq()"


class Flag(int):
    """An int whose comparisons answer with the integer flags 0 / 1 (as many C-backed types do) instead of bools."""
    def __lt__(self, other): return int(int(self) < other)
    def __le__(self, other): return int(int(self) <= other)
    def __gt__(self, other): return int(int(self) > other)
    def __ge__(self, other): return int(int(self) >= other)
    def __eq__(self, other): return int(int(self) == other)
    def __ne__(self, other): return int(int(self) != other)
    def __hash__(self): return int.__hash__(self)
    def __repr__(self): return "Flag({})".format(int(self))
    # formatting differs from str(): an f-string field without a specification goes through __format__(""), not through str()
    def __format__(self, spec): return "<" + int.__format__(int(self), spec) + ">"


class OddDict(dict):
    """A dict sub-class with its own keys() / __getitem__: ``f(**d)`` and ``{**d}`` take CPython's fast path and see the stored items."""
    def keys(self): return list(dict.keys(self))
    def __getitem__(self, key): return dict.__getitem__(self, key) + 100


def exotic_valuations():
    """Valuations 4..8: the int parameters (and list elements) hold legal objects with unusual __eq__ / truth."""
    base = valuations()[1]
    nan = float("nan")
    out = []
    for x, y, xs in ((AnyEq(), 0, [1, 2]), (Elementwise(), 0, [Elementwise()]), (NeverEq(), AnyEq(), [NeverEq(), 1]), (nan, 0, [nan]), (Flag(3), Flag(0), [Flag(1), Flag(0)])):
        v = dict(base)
        v.update({"x": x, "y": y, "xs": xs, "o": Obj(x, [x])})
        if isinstance(x, Flag):
            v["d"] = OddDict(a=1)
        out.append(v)
    return out


GLOBALS_SRC = "G = 7\nGW = 7\nGL = [4, 0]\nx = 100\nxs = [9, 9]\nC = 50\nCL = [7, 7, 7]\nclass _Imp:\n    def __repr__(self):\n        return 'IMPOSSIBLE'\nIMPOSSIBLE = _Imp()\ndef ident(v):\n    return v\ndef add(a, b=0, *rest, k=0):\n    return a + b + sum(rest) + k\ndef first(a=-1, *rest):\n    return a\n"
CLOSURE = {"C": 5, "CL": [1]}
# parameters of the decorated FUNCTION (with these defaults) that no condition takes as a parameter although the conditions use
# the names: inside a condition G and GL are the module globals (7, [4, 0]), whatever the function was called with
SHADOWING_ARGS = {"G": 70, "GL": [70, 71]}
# parameters of the *condition* that the decorated function does not have: the condition's own default applies
OWN_DEFAULTS = {"kd": 0}
OWN_DEFAULT_FRAMES = ["({0}) and kd > 5", "kd > 5 or ident({0})", "kd < 1 and ({0}) and kd > 5"]


def own_default_params(text):
    tree = ast.parse(text, mode="eval")
    used = {n.id for n in ast.walk(tree) if isinstance(n, ast.Name)}
    return ["{}={!r}".format(k, v) for k, v in OWN_DEFAULTS.items() if k in used]

# ---------------------------------------------------------------------------------------------
# grammar

LEAVES = {
    "int": ["x", "y", "2", "0", "C", "G", "o.v", "id"],
    "bool": ["b", "True"],
    "list": ["xs", "GL", "o.items", "CL"],
    "str": ["s", "'a'"],
    "dict": ["d"],
    "none": ["n"],
}
# canonical leaf per slot position (first slot, second slot, third slot)
CANON = {"int": ["x", "y", "2"], "bool": ["b", "True", "b"], "list": ["xs", "GL", "xs"], "str": ["s", "'a'", "s"], "dict": ["d", "d", "d"],
         "none": ["n", "n", "n"]}

PRODS = {
    "int": [
        ("{0} + {1}", ["int", "int"]), ("{0} - {1}", ["int", "int"]), ("{0} * {1}", ["int", "int"]), ("{0} // {1}", ["int", "int"]),
        ("{0} % {1}", ["int", "int"]), ("{0} ** 2", ["int"]), ("{0} << 1", ["int"]), ("{0} >> 1", ["int"]), ("{0} | {1}", ["int", "int"]),
        ("{0} & {1}", ["int", "int"]), ("{0} ^ {1}", ["int", "int"]), ("-{0}", ["int"]), ("+{0}", ["int"]), ("~{0}", ["int"]),
        ("len({0})", ["list"]), ("abs({0})", ["int"]), ("sum({0})", ["list"]), ("max({0})", ["list"]), ("{0}[{1}]", ["list", "int"]),
        ("{0}[-1]", ["list"]), ("{0}[{1}]", ["dict", "str"]), ("o.m({0})", ["int"]), ("o.k({0}, b={1})", ["int", "int"]),
        ("o.k(a={0})", ["int"]), ("add(*{0})", ["list"]), ("add({0}, *{1})", ["int", "list"]), ("add({0}, **{{'k': {1}}})", ["int", "int"]),
        ("add(**{0})", ["dict"]), ("ident({0})", ["int"]), ("({0} if {1} else {2})", ["int", "bool", "int"]), ("(t := {0})", ["int"]),
        ("(t := {0}) + t", ["int"]), ("len({0})", ["str"]), ("int({0})", ["bool"]), ("{0} / 2", ["int"]), ("abs({0} or {1})", ["int", "int"]),
        ("abs({0} and {1})", ["int", "int"]), ("len({0}[{1}:])", ["list", "int"]), ("len(str({0}))", ["int"]),
        ("+{0}", ["bool"]), ("-{0}", ["bool"]),   # unary operators change the type of a bool operand
        ("first(*{0}, {1})", ["list", "int"]), ("first({1}, *{0})", ["list", "int"]), ("first(*{0}, *{1})", ["list", "list"]),   # order of unpacked and plain arguments
    ],
    "bool": [
        ("{0} < {1}", ["int", "int"]), ("{0} <= {1}", ["int", "int"]), ("{0} > {1}", ["int", "int"]), ("{0} >= {1}", ["int", "int"]),
        ("{0} == {1}", ["int", "int"]), ("{0} != {1}", ["int", "int"]), ("{0} < {1} < {2}", ["int", "int", "int"]),
        ("{0} <= {1} != {2}", ["int", "int", "int"]), ("{0} in {1}", ["int", "list"]), ("{0} not in {1}", ["int", "list"]),
        ("{0} is {1}", ["int", "int"]), ("{0} is None", ["none"]), ("{0} is not None", ["none"]), ("not {0}", ["bool"]),
        ("({0} and {1})", ["bool", "bool"]), ("({0} or {1})", ["bool", "bool"]), ("({0} and {1} and {2})", ["bool", "bool", "bool"]),
        ("({0} or {1} or {2})", ["bool", "bool", "bool"]), ("all(v > {0} for v in {1})", ["int", "list"]),
        ("any(v > {0} for v in {1})", ["int", "list"]), ("all(v > 0 for v in {0} if v != {1})", ["list", "int"]),
        ("all(v + w > {0} for v in {1} for w in {2})", ["int", "list", "list"]), ("all(all(w >= v for w in {0}) for v in {1})", ["list", "list"]),
        ("isinstance({0}, int)", ["int"]), ("bool({0})", ["int"]), ("{0} == {1}", ["list", "list"]), ("{0} == {1}", ["str", "str"]),
        ("{0} in {1}", ["str", "dict"]), ("bool({0})", ["list"]), ("{0} == len({1})", ["int", "list"]), ("{0}.startswith({1})", ["str", "str"]),
        ("ident({0})", ["bool"]),
        # quantifiers over elements that are not bools: the call still gives True / False, whatever the falsifying element was
        ("all(v for v in {0})", ["list"]), ("any(v for v in {0})", ["list"]), ("all(v - {0} for v in {1})", ["int", "list"]),
        ("all(w[:v] for v in {0} for w in [{1}])", ["list", "list"]),
        # a named expression inside a comprehension binds in the scope of the lambda: afterwards GW is NOT the module global (7)
        ("(any((GW := v) > {0} for v in {1}) and GW > 1)", ["int", "list"]),
        ("((GW := {0}) > 1 and GW + 1 > {1})", ["int", "int"]),
        # the loop variable of a generator expression bears the name of a parameter / of a closure variable which is read afterwards
        ("(all(o >= -5 for o in {0}) and o.v > {1})", ["list", "int"]), ("(any(C < -5 for C in {0}) or C > {1})", ["list", "int"]),
        # a comprehension binding a name by := , then an unrelated quantifier / comprehension
        ("(any((GW := v) < -5 for v in {0}) or all(w > {1} for w in {0}))", ["list", "int"]),
        ("(any((GW := v) < -5 for v in {0}) or len([w for w in {0} if w > {1}]) > 5)", ["list", "int"]),
    ],
    "list": [
        ("[{0}, {1}]", ["int", "int"]), ("{0} + {1}", ["list", "list"]), ("{0}[{1}:]", ["list", "int"]), ("{0}[:{1}]", ["list", "int"]),
        ("{0}[::2]", ["list"]), ("{0}[{1}:{2}]", ["list", "int", "int"]), ("sorted({0})", ["list"]),
        ("[v * {0} for v in {1}]", ["int", "list"]), ("[v for v in {0} if v > {1}]", ["list", "int"]), ("list(range({0}))", ["int"]),
        ("[v + w for v in {0} for w in {1}]", ["list", "list"]), ("sorted({{v for v in {0}}})", ["list"]), ("list(({0}, {1}))", ["int", "int"]),
        ("sorted({{{0}, {1}}})", ["int", "int"]), ("sorted({{v: {0} for v in {1}}})", ["int", "list"]), ("list(v for v in {0})", ["list"]),
        ("list({0}.keys())", ["dict"]),
        ("[*{0}, {1}]", ["list", "int"]), ("list((*{0}, {1}))", ["list", "int"]), ("sorted({{*{0}, {1}}})", ["list", "int"]),
        ("[{0}, *{1}, *{2}]", ["int", "list", "list"]),
    ],
    "str": [
        ("str({0})", ["int"]), ("{0} + {1}", ["str", "str"]), ("f'{{{0}}}'", ["int"]), ("f'<{{{0}!r}}>'", ["str"]), ("f'{{{0}:>{{{1}}}}}'", ["int", "int"]),
        ("f'{{{0}:03d}}|{{{1}!s}}'", ["int", "int"]), ("{0}.upper()", ["str"]), ("{0}[{1}:]", ["str", "int"]), ("repr({0})", ["list"]),
    ],
    "dict": [
        ("{{{0}: {1}}}", ["str", "int"]), ("{{v: {0} for v in {1}}}", ["int", "list"]), ("dict(a={0})", ["int"]),
        ("{{**{0}, 'zz': {1}}}", ["dict", "int"]), ("{{'zz': {1}, **{0}}}", ["dict", "int"]),
    ],
    "none": [],
}

FRAMES = ["{0}", "not ({0})", "ident({0})", "({0}) and False", "False or ident({0})", "({0}) == IMPOSSIBLE"]


def depth1(typ):
    """Every production of ``typ`` with canonical leaves in its slots, plus the leaves themselves."""
    out = list(LEAVES[typ])
    for tmpl, slots in PRODS[typ]:
        cnt = {}
        args = []
        for t in slots:
            i = cnt.get(t, 0)
            cnt[t] = i + 1
            args.append(CANON[t][i])
        out.append(tmpl.format(*args))
    return out


def paren(e):
    return e if re.fullmatch(r"[\w.']+|\(.*\)|\w+\(.*\)", e) and _balanced(e) else "(" + e + ")"


def _balanced(e):
    d = 0
    for i, ch in enumerate(e):
        if ch == "(":
            d += 1
        elif ch == ")":
            d -= 1
            if d == 0 and i != len(e) - 1 and e[0] == "(":
                return False
    return d == 0


def depth2(typ, full=False):
    """All parent/child pairs: each production with one slot ranging over every depth-1 expression of the slot's type
    (others canonical). ``full``: the complete product over the slots."""
    out = []
    for tmpl, slots in PRODS[typ]:
        cnt = {}
        canon = []
        for t in slots:
            i = cnt.get(t, 0)
            cnt[t] = i + 1
            canon.append(CANON[t][i])
        if full and len(slots) <= 2:
            pools = [[paren(c) for c in depth1(t)] for t in slots]
            for combo in itertools.product(*pools):
                out.append(tmpl.format(*combo))
        else:
            for si, t in enumerate(slots):
                for child in depth1(t):
                    if child in LEAVES[t] and child == canon[si]:
                        continue
                    args = list(canon)
                    args[si] = paren(child)
                    out.append(tmpl.format(*args))
    return out


def depth3_chains(typ):
    """Parent / child / grandchild triples along the first slot."""
    out = []
    for tmpl, slots in PRODS[typ]:
        cnt = {}
        canon = []
        for t in slots:
            i = cnt.get(t, 0)
            cnt[t] = i + 1
            canon.append(CANON[t][i])
        if not slots:
            continue
        t0 = slots[0]
        for tmpl2, slots2 in PRODS[t0]:
            cnt2 = {}
            canon2 = []
            for t in slots2:
                i = cnt2.get(t, 0)
                cnt2[t] = i + 1
                canon2.append(CANON[t][i])
            if not slots2:
                continue
            for g in depth1(slots2[0]):
                if g in LEAVES[slots2[0]]:
                    continue
                a2 = list(canon2)
                a2[0] = paren(g)
                args = list(canon)
                args[0] = paren(tmpl2.format(*a2))
                out.append(tmpl.format(*args))
    return out


import warnings as _warnings
_warnings.simplefilter("ignore", SyntaxWarning)


def all_expressions(level):
    """level 1: depth<=1; level 2: + parent/child pairs; level 3: + full binary products and depth-3 chains."""
    seen, out = set(), []
    for typ in ("bool", "int", "list", "str", "dict"):
        pools = [depth1(typ)]
        if level >= 2:
            pools.append(depth2(typ))
        if level >= 3:
            pools.append(depth2(typ, full=True))
            pools.append(depth3_chains(typ))
        for pool in pools:
            for e in pool:
                if e not in seen:
                    try:
                        compile(e, "<grammar>", "eval")  # also rejects what only the symbol table refuses (walrus in an iterable)
                    except SyntaxError:
                        continue
                    seen.add(e)
                    out.append((typ, e))
    return out


# ---------------------------------------------------------------------------------------------
# CPython recorder


class _Wrap(ast.NodeTransformer):
    """Wrap every expression node in ``__rec__(i, node)``; ``self.info[i]`` describes node i (type, source text, ...)."""

    def __init__(self, text):
        self.text = text
        self.info = []
        self.comp_walrus = set()  # targets of named expressions bound INSIDE a comprehension (local to the lambda)
        self.in_comp = 0
        self.in_first_iter = 0
        self.in_fstring = 0

    def _w(self, node, new):
        i = len(self.info)
        self.info.append({
            "type": type(node).__name__,
            "text": ast.get_source_segment(self.text, node),
            "in_comp": self.in_comp > 0,
            "in_first_iter": self.in_first_iter > 0,
            "in_fstring": self.in_fstring > 0,
            "id": getattr(node, "id", None),
            "target": node.target.id if isinstance(node, ast.NamedExpr) else None,
            "is_all_genexp": (isinstance(node, ast.Call) and isinstance(node.func, ast.Name) and node.func.id == "all"
                              and len(node.args) == 1 and isinstance(node.args[0], ast.GeneratorExp)),
        })
        return ast.copy_location(ast.Call(func=ast.Name(id="__rec__", ctx=ast.Load()), args=[ast.Constant(i), new], keywords=[]), node)

    def visit(self, node):
        if isinstance(node, ast.expr) and not isinstance(getattr(node, "ctx", None), (ast.Store, ast.Del)):
            if isinstance(node, (ast.Starred, ast.Slice)):
                return self.generic_visit(node)
            if isinstance(node, ast.FormattedValue):
                self.in_fstring += 1
                try:
                    node.value = self.visit(node.value)
                    if node.format_spec is not None:
                        node.format_spec = self.generic_visit(node.format_spec)  # JoinedStr of the spec: descend, do not wrap
                finally:
                    self.in_fstring -= 1
                return node
            if isinstance(node, (ast.ListComp, ast.SetComp, ast.DictComp, ast.GeneratorExp)):
                # the first iterable is evaluated in the enclosing scope, everything else inside the comprehension scope
                first = node.generators[0]
                self.in_first_iter += 1
                try:
                    first.iter = self.visit(first.iter)
                finally:
                    self.in_first_iter -= 1
                self.in_comp += 1
                try:
                    for gi, gen in enumerate(node.generators):
                        if gi > 0:
                            gen.iter = self.visit(gen.iter)
                        gen.ifs = [self.visit(c) for c in gen.ifs]
                    if isinstance(node, ast.DictComp):
                        node.key = self.visit(node.key)
                        node.value = self.visit(node.value)
                    else:
                        node.elt = self.visit(node.elt)
                finally:
                    self.in_comp -= 1
                return self._w(node, node)
            if isinstance(node, ast.NamedExpr):
                if self.in_comp > 0:
                    self.comp_walrus.add(node.target.id)
                node.value = self.visit(node.value)
                return self._w(node, node)
            if isinstance(node, ast.Call):
                node.func = self.visit(node.func)
                node.args = [self.visit(a) for a in node.args]
                for kw in node.keywords:
                    kw.value = self.visit(kw.value)
                return self._w(node, node)
            new = self.generic_visit(node)
            return self._w(node, new)
        return self.generic_visit(node)


class Recording:
    def __init__(self, text, info, values, result, error):
        self.text = text
        self.info = info  # per node: type, text, in_comp, ...
        self.values = values  # node index -> list of values taken (absent: CPython did not evaluate the node)
        self.result = result
        self.error = error


def record(text, env):
    """Evaluate ``text`` under CPython with every sub-expression recorded. ``env``: all names (args/closure/globals)."""
    tree = ast.parse(text, mode="eval")
    w = _Wrap(text)
    new = w.visit(tree)
    ast.fix_missing_locations(new)
    values = {}

    def rec(i, v):
        values.setdefault(i, []).append(v)
        return v

    g = dict(env)
    g["__rec__"] = rec
    code = compile(new, "<recorder>", "eval")
    result, error = None, None
    try:
        result = eval(code, g)
    except Exception as e:  # the expression itself raises under CPython for this valuation
        error = e
    r = Recording(text, w.info, values, result, error)
    r.comp_walrus = w.comp_walrus
    return r


# ---------------------------------------------------------------------------------------------
# message parsing


class ParsedMessage:
    def __init__(self, location, description, condition_text, lines, all_blocks, raw):
        self.location = location
        self.description = description
        self.condition_text = condition_text
        self.lines = lines  # list of (text, repr)
        self.all_blocks = all_blocks  # list of (text, [(name, repr), ...])
        self.raw = raw


def parse_message(msg, condition_text, description=None):
    """Parse a generated violation message whose condition text is known. Returns ParsedMessage or raises ValueError."""
    first, _, rest = msg.partition("\n")
    if not first.startswith("File "):
        raise ValueError("no location line: {!r}".format(first))
    location = first
    if description is not None:
        pre = description + ": "
        if not rest.startswith(pre):
            raise ValueError("description missing")
        rest = rest[len(pre):]
    ct = condition_text
    while not rest.startswith(ct):
        # the reported text is that of the lambda body: redundant outer parentheses of the condition are not part of it
        if ct.startswith("(") and ct.endswith(")") and _balanced(ct):
            ct = ct[1:-1]
            continue
        raise ValueError("condition text {!r} not found at the start of {!r}".format(condition_text, rest[:120]))
    condition_text = ct
    tail = rest[len(condition_text):]
    lines, blocks = [], []
    if tail == "":
        body = []
    elif tail.startswith(": ") and "\n" not in tail.strip("\n") or (tail.startswith(": ") and not tail.startswith(":\n")):
        body = tail[2:].split("\n")
    elif tail.startswith(":\n"):
        body = tail[2:].split("\n")
    else:
        raise ValueError("unexpected text after the condition: {!r}".format(tail[:80]))
    i = 0
    while i < len(body):
        ln = body[i]
        if ln.endswith(" was False, e.g., with"):
            text = ln[: -len(" was False, e.g., with")]
            items = []
            i += 1
            while i < len(body) and body[i].startswith("  "):
                name, _, val = body[i][2:].partition(" = ")
                items.append((name, val))
                i += 1
            blocks.append((text, items))
            continue
        if " was " not in ln:
            raise ValueError("unparsable line {!r}".format(ln))
        text, _, val = ln.partition(" was ")
        # texts may themselves contain ' was ' only inside string constants, which the grammar avoids
        lines.append((text, val))
        i += 1
    return ParsedMessage(location, description, condition_text, lines, blocks, msg)


def representable(value):
    return not (inspect.isclass(value) or inspect.isfunction(value) or inspect.ismethod(value) or inspect.ismodule(value)
                or inspect.isbuiltin(value))


def outer_name_loads(tree):
    """The Name nodes (ctx Load) which are read in the scope of the lambda itself, i.e. not bound by an enclosing comprehension.
    (The first iterable of a comprehension is evaluated in the enclosing scope.)"""
    out = []

    def targets(node):
        return {n.id for n in ast.walk(node) if isinstance(n, ast.Name) and isinstance(n.ctx, ast.Store)}

    def visit(node, bound):
        if isinstance(node, (ast.ListComp, ast.SetComp, ast.GeneratorExp, ast.DictComp)):
            inner = set(bound)
            for i, gen in enumerate(node.generators):
                visit(gen.iter, bound if i == 0 else inner)
                inner |= targets(gen.target)
                for cond in gen.ifs:
                    visit(cond, inner)
            for part in ([node.key, node.value] if isinstance(node, ast.DictComp) else [node.elt]):
                visit(part, inner)
            return
        if isinstance(node, ast.Name):
            if isinstance(node.ctx, ast.Load) and node.id not in bound:
                out.append(node)
            return
        for child in ast.iter_child_nodes(node):
            visit(child, bound)
    visit(tree, frozenset())
    return out


def walrus_targets(tree):
    return {n.target.id for n in ast.walk(tree) if isinstance(n, ast.NamedExpr)}


def free_params(text):
    """Names of PARAMS used by the expression (the lambda takes exactly these)."""
    tree = ast.parse(text, mode="eval")
    stored = walrus_targets(tree)
    used = []
    for n in outer_name_loads(tree):
        if n.id in PARAMS and n.id not in stored and n.id not in used:
            used.append(n.id)
    return [p for p in PARAMS if p in used]
