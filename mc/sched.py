"""Schedule explorers for C12: real asyncio Tasks on a virtual loop (all interleavings), and real threads under a
baton-passing scheduler with iterative preemption bounding (scheduling points: entries into user code, and
optionally every line event in frames of icontract/_checkers.py via sys.settrace)."""
import asyncio
import collections
import contextvars
import sys
import threading
from asyncio import events


# ---------------------------------------------------------------------------------------------
# tasks


class VLoop(asyncio.BaseEventLoop):
    """An event loop without selector and with a virtual clock; the explorer pops handles from _ready by hand."""

    def __init__(self):
        super().__init__()
        self._vtime = 0.0

    def time(self):
        return self._vtime

    def _process_events(self, event_list):
        pass

    def _write_to_self(self):
        pass


class TaskRun:
    def __init__(self):
        self.points = []  # number of ready handles at each step
        self.choices = []
        self.results = {}
        self.deadlock = False


def run_tasks(make_tasks, prefix, max_steps=400):
    """make_tasks(loop) -> dict label -> Task (created on ``loop``). Replays ``prefix`` (an out-of-range choice is a
    hard error = nondeterminism), then always takes choice 0."""
    loop = VLoop()
    rec = TaskRun()
    old = events._get_running_loop()
    events._set_running_loop(loop)
    try:
        tasks = make_tasks(loop)
        step = 0
        while loop._ready:
            n = len(loop._ready)
            if step < len(prefix):
                c = prefix[step]
                if c >= n:
                    raise RuntimeError("replay divergence: choice {} of {} at step {}".format(c, n, step))
            else:
                c = 0
            rec.points.append(n)
            rec.choices.append(c)
            h = loop._ready[c]
            del loop._ready[c]
            if not h._cancelled:
                h._run()
            step += 1
            if step > max_steps:
                raise RuntimeError("schedule horizon exceeded")
        for label, t in tasks.items():
            if not t.done():
                rec.deadlock = True
                rec.results[label] = ("pending",)
                t.cancel()
            elif t.cancelled():
                rec.results[label] = ("cancelled",)
            elif t.exception() is not None:
                rec.results[label] = ("exc", type(t.exception()).__name__)
            else:
                rec.results[label] = ("ret", t.result())
        # drain cancellations quietly
        while loop._ready:
            h = loop._ready.popleft()
            if not h._cancelled:
                h._run()
    finally:
        events._set_running_loop(old)
        loop.close()
    return rec


def explore_tasks(make_tasks, check, root_prefix=(), budget=200000):
    """Depth-first over all choice sequences below ``root_prefix``. Returns (schedules, nodes, steps, capped)."""
    stack = [list(root_prefix)]
    schedules = nodes = steps = 0
    capped = False
    first = True
    while stack:
        prefix = stack.pop()
        rec = run_tasks(make_tasks, prefix)
        if first:
            # determinism self-check: the same schedule twice gives identical observations
            rec2 = run_tasks(make_tasks, prefix)
            if (rec2.points, rec2.results) != (rec.points, rec.results):
                raise RuntimeError("nondeterministic replay of the first schedule")
            first = False
        schedules += 1
        steps += len(rec.points)
        nodes += len(rec.points) - len(prefix) + 1
        check(rec)
        for i in range(len(prefix), len(rec.points)):
            for alt in range(1, rec.points[i]):
                stack.append(rec.choices[:i] + [alt])
        if schedules >= budget:
            capped = True
            break
    return schedules, nodes, steps, capped


# ---------------------------------------------------------------------------------------------
# threads


class ThreadSched:
    TIMEOUT = 20

    def __init__(self, n, line_trace=None):
        self.n = n
        self.sems = [threading.Semaphore(0) for _ in range(n)]
        self.main = threading.Semaphore(0)
        self.done = [False] * n
        self.line_trace = line_trace  # None | "wrapper" | "all"
        self.tls = threading.local()
        self.active = False

    def point(self):
        """A scheduling point reached by the calling (controlled) thread."""
        tid = getattr(self.tls, "tid", None)
        if tid is None or not self.active:
            return
        self.main.release()
        if not self.sems[tid].acquire(timeout=self.TIMEOUT):
            raise RuntimeError("scheduler hang (thread {})".format(tid))

    def _tracer(self, frame, event, arg):
        if event != "call":
            return None
        code = frame.f_code
        if not code.co_filename.endswith("_checkers.py"):
            return None
        if self.line_trace == "wrapper" and code.co_name != "wrapper":
            return None
        return self._local

    def _local(self, frame, event, arg):
        if event == "line":
            self.point()
        return self._local

    def run(self, targets, prefix, bound):
        """targets: list of callables (one per thread, already wrapped with their context mode). Returns
        (points, choices, costs, results) where points[i] = enabled threads in canonical order at step i."""
        n = self.n
        results = [None] * n
        self.done = [False] * n
        self.active = True

        def body(tid):
            self.tls.tid = tid
            if not self.sems[tid].acquire(timeout=self.TIMEOUT):
                return
            if self.line_trace:
                sys.settrace(self._tracer)
            try:
                results[tid] = ("ret", targets[tid]())
            except BaseException as e:  # noqa
                results[tid] = ("exc", type(e).__name__)
            finally:
                sys.settrace(None)
                self.done[tid] = True
                self.main.release()

        threads = [threading.Thread(target=body, args=(i,), daemon=True) for i in range(n)]
        for t in threads:
            t.start()
        points, choices, costs = [], [], []
        cur = None
        step = 0
        cost = 0
        while not all(self.done):
            enabled = [i for i in range(n) if not self.done[i]]
            if cur is not None and cur in enabled:
                enabled.remove(cur)
                enabled.insert(0, cur)
                running_enabled = True
            else:
                running_enabled = False
            if step < len(prefix):
                c = prefix[step]
                if c >= len(enabled):
                    raise RuntimeError("replay divergence in thread schedule")
            else:
                c = 0
            if running_enabled and c > 0:
                cost += 1
            points.append((len(enabled), running_enabled))
            choices.append(c)
            costs.append(cost)
            cur = enabled[c]
            self.sems[cur].release()
            if not self.main.acquire(timeout=self.TIMEOUT):
                raise RuntimeError("scheduler hang (main)")
            step += 1
            if step > 5000:
                raise RuntimeError("thread schedule horizon exceeded")
        self.active = False
        for t in threads:
            t.join(timeout=self.TIMEOUT)
        return points, choices, costs, results


def explore_threads(make_run, check, bound, root_prefix=(), budget=100000):
    """make_run(prefix) -> (points, choices, costs, results). Iterative preemption bounding is done by the caller
    (call with bound 0, 1, 2); here all schedules with at most ``bound`` preemptions below root_prefix."""
    stack = [list(root_prefix)]
    schedules = nodes = steps = 0
    capped = False
    first = True
    while stack:
        prefix = stack.pop()
        points, choices, costs, results = make_run(prefix)
        if first:
            p2, c2, k2, r2 = make_run(prefix)
            if (p2, r2) != (points, results):
                raise RuntimeError("nondeterministic replay of the first thread schedule")
            first = False
        schedules += 1
        steps += len(points)
        nodes += len(points) - len(prefix) + 1
        check(results, choices)
        for i in range(len(prefix), len(points)):
            n_en, running_enabled = points[i]
            before = costs[i - 1] if i > 0 else 0
            for alt in range(1, n_en):
                c = before + (1 if running_enabled else 0)
                if c > bound:
                    continue
                stack.append(choices[:i] + [alt])
        if schedules >= budget:
            capped = True
            break
    return schedules, nodes, steps, capped
